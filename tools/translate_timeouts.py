#!/usr/bin/env python3
"""Tie T for the timeout helpers (C06, C04): translate fail_at, fail_after, move_on_at, move_on_after of
src/anyio/_core/_tasks.py into the shapes of coq/scopes/TimeoutSpec.v.

Reads  $VERIF_REPO/src/anyio/_core/_tasks.py  (VERIF_REPO defaults to /repo) with `ast` and regenerates
coq/scopes/TimeoutGen.v; coq/scopes/TimeoutEq.v proves the regenerated shapes equal to what the S machine assumes.

FAIL CLOSED.  Accepted forms (after dropping the docstring), with D the first parameter and S the parameter `shield`:

  deadline expression   E ::= `D if D is not None else math.inf` | `math.inf if D is None else D`          -> DArg
                            | `<now>() + D if D is not None else math.inf`  (parenthesised or not)         -> DNowPlusArg
                        where <now> is `get_async_backend().current_time` or a local bound to exactly that
  a local may be bound once to an E (`deadline = E`, `effective_deadline = E`) or to `get_async_backend().current_time`
  scope helper          `return get_async_backend().create_cancel_scope(deadline=<E or local>, shield=S)`   -> HScope E true PNone
  generator helper      `with get_async_backend().create_cancel_scope(deadline=<E or local>, shield=S) as V:` `yield V`
                        followed by exactly
                        `if V.cancelled_caught and <now>() >= V.deadline: raise TimeoutError(reason) if reason else TimeoutError`
                        (or a plain `raise TimeoutError`)                                -> HScope E true PTimeoutIfCaughtAndDue
  delegating helper     `with fail_at(<E or local>, shield=S[, reason=reason]) as V:` `yield V`  and nothing after
                                                                                        -> HDelegate 0 E true
  `shield=S` missing or anything else passed as shield -> the flag is `false` in the shape (the equality proof then fails);
  every other statement, decorator mismatch (`@contextmanager` exactly on the generator helpers) or signature mismatch:
  `translate_timeouts: REFUSED: ...`, TimeoutGen.v replaced by a file that does not compile, exit status 2.
"""
from __future__ import annotations

import ast
import os
import sys
from pathlib import Path

REPO = Path(os.environ.get("VERIF_REPO", "/repo"))
SRC = REPO / "src" / "anyio" / "_core" / "_tasks.py"
OUT = Path(__file__).resolve().parent.parent / "coq" / "scopes" / "TimeoutGen.v"
NOW = "get_async_backend().current_time"


class Refused(Exception):
    pass


def refuse(fn, node, what):
    raise Refused(f"{fn}: line {getattr(node, 'lineno', '?')}: {what}")


def body_of(fn):
    return [s for s in fn.body if not (isinstance(s, ast.Expr) and isinstance(s.value, ast.Constant) and isinstance(s.value.value, str))]


class Helper:
    def __init__(self, fn):
        self.fn, self.name = fn, fn.name
        args = [a.arg for a in fn.args.args]
        if len(args) < 2 or args[1] != "shield" or fn.args.vararg or fn.args.kwarg or fn.args.kwonlyargs:
            refuse(self.name, fn, f"signature: {args}")
        if [ast.unparse(d) for d in fn.args.defaults][0] != "False":
            refuse(self.name, fn, "default of shield")
        self.D, self.extra = args[0], args[2:]
        if self.extra not in ([], ["reason"]):
            refuse(self.name, fn, f"signature: {args}")
        self.now_names = {NOW}
        self.locals: dict[str, str] = {}          # local -> dexp

    def is_now_call(self, n) -> bool:
        return isinstance(n, ast.Call) and not n.args and not n.keywords and ast.unparse(n.func) in self.now_names

    def dexp(self, n):
        """E -> 'DArg' | 'DNowPlusArg' | None"""
        if isinstance(n, ast.Name) and n.id in self.locals:
            return self.locals[n.id]
        if not isinstance(n, ast.IfExp):
            return None
        t = ast.unparse(n.test)
        if t == f"{self.D} is not None":
            val, other = n.body, n.orelse
        elif t == f"{self.D} is None":
            val, other = n.orelse, n.body
        else:
            return None
        if ast.unparse(other) != "math.inf":
            return None
        if isinstance(val, ast.Name) and val.id == self.D:
            return "DArg"
        if isinstance(val, ast.BinOp) and isinstance(val.op, ast.Add):
            l, r = val.left, val.right
            if self.is_now_call(l) and isinstance(r, ast.Name) and r.id == self.D:
                return "DNowPlusArg"
            if self.is_now_call(r) and isinstance(l, ast.Name) and l.id == self.D:
                return "DNowPlusArg"
        return None

    def shield_flag(self, call: ast.Call) -> str:
        kw = {k.arg: k.value for k in call.keywords}
        sh = kw.get("shield")
        return "true" if isinstance(sh, ast.Name) and sh.id == "shield" else "false"

    def scope_call(self, call):
        """create_cancel_scope(deadline=E, shield=..) -> (dexp, shieldflag) or None"""
        if not (isinstance(call, ast.Call) and ast.unparse(call.func) == "get_async_backend().create_cancel_scope" and not call.args):
            return None
        kw = {k.arg: k.value for k in call.keywords}
        if set(kw) - {"deadline", "shield"} or "deadline" not in kw:
            refuse(self.name, call, f"arguments of create_cancel_scope: {sorted(kw)}")
        d = self.dexp(kw["deadline"])
        if d is None:
            refuse(self.name, call, f"deadline expression outside the grammar: {ast.unparse(kw['deadline'])}")
        return d, self.shield_flag(call)

    def translate(self, decorated: bool) -> str:
        body = body_of(self.fn)
        # leading local bindings
        while body and isinstance(body[0], ast.Assign) and len(body[0].targets) == 1 and isinstance(body[0].targets[0], ast.Name):
            s = body.pop(0)
            nm = s.targets[0].id
            if ast.unparse(s.value) == NOW:
                self.now_names.add(nm)
                continue
            d = self.dexp(s.value)
            if d is None or nm in self.locals:
                refuse(self.name, s, f"local binding outside the grammar: {ast.unparse(s)}")
            self.locals[nm] = d
        if not body:
            refuse(self.name, self.fn, "empty body")
        s = body[0]
        if isinstance(s, ast.Return):
            if decorated or len(body) != 1:
                refuse(self.name, s, "a helper that returns the scope must be a plain function with nothing after the return")
            sc = self.scope_call(s.value)
            if sc is None:
                refuse(self.name, s, f"return outside the grammar: {ast.unparse(s)[:100]}")
            return f"HScope {sc[0]} {sc[1]} PNone"
        if isinstance(s, ast.With):
            if not decorated:
                refuse(self.name, s, "a generator helper must be decorated with @contextmanager")
            if len(s.items) != 1 or not isinstance(s.items[0].optional_vars, ast.Name):
                refuse(self.name, s, "with statement outside the grammar")
            v = s.items[0].optional_vars.id
            if [ast.unparse(x) for x in s.body] != [f"yield {v}"]:
                refuse(self.name, s, f"body of the with block: {[ast.unparse(x) for x in s.body]}")
            call = s.items[0].context_expr
            sc = self.scope_call(call)
            if sc is not None:
                rest = body[1:]
                if len(rest) != 1 or not isinstance(rest[0], ast.If) or rest[0].orelse:
                    refuse(self.name, s, "statements after the with block")
                test = rest[0].test
                ok = (isinstance(test, ast.BoolOp) and isinstance(test.op, ast.And) and len(test.values) == 2
                      and ast.unparse(test.values[0]) == f"{v}.cancelled_caught"
                      and isinstance(test.values[1], ast.Compare) and len(test.values[1].ops) == 1
                      and isinstance(test.values[1].ops[0], ast.GtE) and self.is_now_call(test.values[1].left)
                      and ast.unparse(test.values[1].comparators[0]) == f"{v}.deadline")
                raises = [ast.unparse(x) for x in rest[0].body]
                want_raise = ["raise TimeoutError(reason) if reason else TimeoutError"] if self.extra else ["raise TimeoutError"]
                if not ok or raises != want_raise:
                    refuse(self.name, rest[0], f"test after the block outside the grammar: {ast.unparse(rest[0])[:140]}")
                return f"HScope {sc[0]} {sc[1]} PTimeoutIfCaughtAndDue"
            if isinstance(call, ast.Call) and isinstance(call.func, ast.Name) and call.func.id == "fail_at" and len(call.args) == 1:
                kw = {k.arg: ast.unparse(k.value) for k in call.keywords}
                if set(kw) - {"shield", "reason"} or (self.extra and kw.get("reason") != "reason") or (not self.extra and "reason" in kw):
                    refuse(self.name, call, f"arguments of fail_at: {kw} (a `reason` parameter must be passed on)")
                d = self.dexp(call.args[0])
                if d is None or len(body) != 1:
                    refuse(self.name, call, f"delegation outside the grammar: {ast.unparse(call)}")
                return f"HDelegate 0 {d} {self.shield_flag(call)}"
            refuse(self.name, s, f"context expression outside the grammar: {ast.unparse(call)[:100]}")
        refuse(self.name, s, f"statement outside the grammar: {ast.unparse(s)[:100]}")


def generate() -> dict:
    mod = ast.parse(SRC.read_text())
    try:
        import guard
        guard.check("_core/_tasks.py", mod, [])
    except guard.GuardError as e:
        raise Refused(str(e))
    names = ("fail_at", "fail_after", "move_on_at", "move_on_after")
    fns = {}
    for n in mod.body:
        if isinstance(n, (ast.FunctionDef, ast.AsyncFunctionDef, ast.ClassDef)) and n.name in names + ("get_async_backend", "contextmanager", "TimeoutError", "math"):
            if n.name in fns or n.name not in names or not isinstance(n, ast.FunctionDef):
                refuse(n.name, n, "defined twice / shadowed at module level")
            fns[n.name] = n
        # what the names used by the helpers mean is fixed by three imports; nothing at module level may rebind them
        if isinstance(n, (ast.Assign, ast.AnnAssign, ast.AugAssign)):
            tg = [t for t in (n.targets if isinstance(n, ast.Assign) else [n.target])]
            for t in tg:
                if any(isinstance(x, ast.Name) and x.id in names + ("get_async_backend", "contextmanager", "TimeoutError", "math")
                       for x in ast.walk(t)) or any(isinstance(x, ast.Attribute) and x.attr in names for x in ast.walk(t)):
                    refuse("module", n, f"module-level rebinding: {ast.unparse(n)[:100]}")
    # import math; from ._eventloop import ..., get_async_backend, ...; from contextlib import ..., contextmanager, ...
    # - each exactly once, without `as`; no other import may bind these names
    bound = {}
    for n in mod.body:
        if isinstance(n, ast.Import):
            for a in n.names:
                bound.setdefault(a.asname or a.name.split(".")[0], []).append(("import", a.name, a.asname))
        elif isinstance(n, ast.ImportFrom):
            for a in n.names:
                bound.setdefault(a.asname or a.name, []).append((("." * n.level) + (n.module or ""), a.name, a.asname))
    want = {"math": [("import", "math", None)], "get_async_backend": [("._eventloop", "get_async_backend", None)],
            "contextmanager": [("contextlib", "contextmanager", None)]}
    for nm, w in want.items():
        if bound.get(nm) != w:
            refuse("module", mod, f"import of `{nm}` missing or changed: {bound.get(nm)}")
    if "TimeoutError" in bound:
        refuse("module", mod, "TimeoutError is rebound by an import")
    out = {}
    for name in ("fail_at", "fail_after", "move_on_at", "move_on_after"):
        if name not in fns:
            refuse(name, mod, "function missing")
        fn = fns[name]
        decos = [ast.unparse(d) for d in fn.decorator_list]
        if decos not in ([], ["contextmanager"]):
            refuse(name, fn, f"decorators: {decos}")
        out[name] = Helper(fn).translate(decorated=bool(decos))
    return out


HEADER = "(* GENERATED by tools/translate_timeouts.py from src/anyio/_core/_tasks.py - do not edit *)\nFrom AV Require Import Base Machine TimeoutSpec.\n\n"


def main() -> int:
    try:
        h = generate()
    except Refused as e:
        msg = f"translate_timeouts: REFUSED: {e}"
        print(msg)
        OUT.write_text(HEADER + f"(* {msg.replace('*)', '* )')} *)\nDefinition gen_table : nat -> helper := translator_refused.\n")
        return 2
    text = HEADER + "".join(f"Definition gen_{k} : helper := {h[k]}.\n" for k in ("fail_at", "fail_after", "move_on_at", "move_on_after"))
    text += ("\nDefinition gen_table (i : nat) : helper :=\n"
             "  match i with 0 => gen_fail_at | 1 => gen_fail_after | 2 => gen_move_on_at | _ => gen_move_on_after end.\n")
    if not OUT.exists() or OUT.read_text() != text:
        OUT.write_text(text)
    print(f"translate_timeouts: ok segments=fail_at,fail_after,move_on_at,move_on_after source={SRC}")
    for k, v in h.items():
        print(f"  {k} := {v}")
    return 0


if __name__ == "__main__":
    sys.exit(main())
