#!/usr/bin/env python3
"""Tie T: translate the scope-chain walks of AnyIO's asyncio backend into Coq.

Reads  $VERIF_REPO/src/anyio/_backends/_asyncio.py  (VERIF_REPO defaults to /repo) with `ast` and regenerates
coq/scopes/ChainGen.v: one structural `Fixpoint` over an explicit chain (`list scope_rec`, innermost first; for
is_anyio_cancellation a `list exc_rec`, the exception first, then its __context__ chain) for each of

  CancelScope._visible_parent_scope (stops?)             -> gen_visible_parent_stops  : scope_rec -> bool
  CancelScope._effectively_cancelled                    -> gen_effectively_cancelled : list scope_rec -> bool
  CancelScope._parent_cancellation_is_visible_to_us      -> gen_parent_visible        : list scope_rec -> bool
  AsyncIOBackend.checkpoint_if_cancelled (the walk)      -> gen_ckif_spins            : list scope_rec -> bool
  AsyncIOBackend.current_effective_deadline              -> gen_eff_deadline          : list scope_rec -> xtime
  AsyncIOBackend.check_cancelled (raises?)               -> gen_check_cancelled_raises: list scope_rec -> bool
  CancelScope._restart_cancellation (restarted scope)    -> gen_restart_target        : list scope_rec -> option nat
  is_anyio_cancellation                                  -> gen_is_anyio_cancellation : list exc_rec -> bool

FAIL CLOSED.  The accepted grammar is exactly what these functions use (see GRAMMAR below).  Anything else makes
the translator (a) print `translate_chain: REFUSED: <function>: line N: <construct>`, (b) replace ChainGen.v by a
file that does not compile and carries the same message (so a stale translation can never be used by the proofs),
(c) exit with status 2.  Nothing is ever guessed.

GRAMMAR
  function   ::= [docstring] preamble* loop [final-return]
               | [docstring] `return` boolexpr                       (only _parent_cancellation_is_visible_to_us)
  preamble   ::= `v[: T] = self` | `v[: T] = threadlocals.current_cancel_scope`
               | `task = current_task()` | `if task is None: return [c]` | `if (task := current_task()) is None: return [c]`
               | `try: v = _task_states[task].cancel_scope` `except KeyError: return [c]`
               | `acc = math.inf`
               (an early `return c` must equal the function's value on the empty chain; this is checked)
  loop       ::= `while v is not None:` block | `while v:` block | `while True:` block   (no else)
  block      ::= stmt+
  stmt       ::= `if` test `:` block [`elif` ... | `else:` block]
               | `return` [`True` | `False` | acc] | `break` | `continue`
               | `v = v._parent_scope` | `v = v.__context__`          (pointer advance, at most once per iteration,
                                                                       nothing but `continue` may follow it)
               | `v = v._visible_parent_scope`                        (advance through the property of that name, which
                                                                       is translated too: `if <ptest>: return None`
                                                                       `return self._parent_scope`; when <ptest> holds
                                                                       the pointer becomes None and the loop ends)
               | `acc = min(acc, v.deadline)` | `acc = -math.inf` | `acc = math.inf`
               | `raise CancelledError(...)`                          (check_cancelled only: result "raises")
               | `await sleep(0)` `v = _task_states[task].cancel_scope` (checkpoint_if_cancelled only: result "spins":
                                                                       the task yields and then RESTARTS the walk from
                                                                       its own scope (F46) -- the assignment must repeat
                                                                       the pointer initialisation of the preamble, must
                                                                       follow the await directly and must end the
                                                                       iteration; a bare `await sleep(0)` that re-tests
                                                                       the same scope (the pre-F46 shape) is refused)
               | `v._deliver_cancellation(v)`                         (_restart_cancellation only: result = this scope)
  test       ::= `v._cancel_called` | `v.cancel_called` | `v._shield` | `v.shield`
               | `v._cancel_handle is None` | `v._cancel_handle is not None`
               | `not` test | test `and` test | test `or` test
               | <the scope-tag test of is_anyio_cancellation, matched verbatim>
               | `isinstance(v.__context__, CancelledError)`          (look-ahead; the only legal guard of an advance
                                                                       inside `while True`)
  ptest      ::= `self._shield` | `self.shield` | `self._cancel_called` | `self.cancel_called`
               | `self._host_task is None` | `self._host_task is not None` | `not` ptest | ptest `and` ptest | ptest `or` ptest
  boolexpr   ::= `self._parent_scope is not None` | `self.shield` | `self._shield` | `self.cancel_called`
               | `self._cancel_called` | `self._parent_scope._effectively_cancelled` (only after the is-not-None
                 conjunct) | `not` boolexpr | boolexpr `and` boolexpr | boolexpr `or` boolexpr
Side conditions checked on the class: the properties `cancel_called`, `shield`, `deadline` are plain getters of
`_cancel_called`, `_shield`, `_deadline`; CancelScope (and its base in _core/_tasks.py) defines no `__bool__` /
`__len__` (so `while v:` means `v is not None`); `cancel()` builds its message from the literal prefix that
is_anyio_cancellation tests for.
"""
from __future__ import annotations

import ast
import os
import re
import sys
from pathlib import Path

VERIF = Path(__file__).resolve().parent.parent
OUT = VERIF / "coq" / "scopes" / "ChainGen.v"
TAG_PREFIX = "Cancelled via cancel scope "


class Refuse(Exception):
    pass


HAVE_VPS = False   # set when the property CancelScope._visible_parent_scope exists and was translated


def refuse(fn: str, node, what: str):
    line = getattr(node, "lineno", "?")
    raise Refuse(f"{fn}: line {line}: {what}")


def dump(n) -> str:
    return ast.dump(n, annotate_fields=False)


def describe(n) -> str:
    try:
        txt = ast.unparse(n)
    except Exception:  # pragma: no cover
        txt = type(n).__name__
    txt = " ".join(txt.split())
    return f"{type(n).__name__} `{txt[:90]}`"


# ---------------------------------------------------------------------------------------------------------------
# locating the functions
# ---------------------------------------------------------------------------------------------------------------

def find_class(mod: ast.Module, name: str) -> ast.ClassDef:
    hits = [n for n in mod.body if isinstance(n, ast.ClassDef) and n.name == name]
    if len(hits) != 1:
        raise Refuse(f"module: expected exactly one class {name}, found {len(hits)}")
    return hits[0]


def find_func(body, name: str, where: str):
    hits = [n for n in body if isinstance(n, (ast.FunctionDef, ast.AsyncFunctionDef)) and n.name == name]
    if len(hits) != 1:
        raise Refuse(f"{where}: expected exactly one definition of {name}, found {len(hits)}")
    return hits[0]


def deco_names(fn) -> list[str]:
    out = []
    for d in fn.decorator_list:
        out.append(ast.unparse(d))
    return out


def strip_doc(body):
    if body and isinstance(body[0], ast.Expr) and isinstance(body[0].value, ast.Constant) \
            and isinstance(body[0].value.value, str):
        return body[1:]
    return body


def check_getter(cls: ast.ClassDef, prop: str, field: str):
    fns = [n for n in cls.body if isinstance(n, ast.FunctionDef) and n.name == prop
           and "property" in deco_names(n)]
    if len(fns) != 1:
        raise Refuse(f"CancelScope.{prop}: expected exactly one @property getter, found {len(fns)}")
    body = strip_doc(fns[0].body)
    ok = (len(body) == 1 and isinstance(body[0], ast.Return) and body[0].value is not None
          and dump(body[0].value) == dump(ast.parse(f"self.{field}", mode="eval").body))
    if not ok:
        refuse(f"CancelScope.{prop}", fns[0], f"property is not the plain getter `return self.{field}`")


def check_no_truthiness(cls: ast.ClassDef, where: str):
    for n in cls.body:
        if isinstance(n, (ast.FunctionDef, ast.AsyncFunctionDef)) and n.name in ("__bool__", "__len__"):
            refuse(where, n, f"class defines {n.name}: `while v:` would no longer mean `v is not None`")


def check_cancel_message(cls: ast.ClassDef):
    fn = find_func(cls.body, "cancel", "CancelScope")
    found = False
    for n in ast.walk(fn):
        if isinstance(n, ast.Assign) and len(n.targets) == 1 and ast.unparse(n.targets[0]) == "self._cancel_reason":
            v = n.value
            if isinstance(v, ast.JoinedStr) and v.values and isinstance(v.values[0], ast.Constant) \
                    and v.values[0].value == TAG_PREFIX:
                found = True
            else:
                refuse("CancelScope.cancel", n, "cancel message is not built from the literal prefix "
                       f"{TAG_PREFIX!r} that is_anyio_cancellation tests for")
    if not found:
        refuse("CancelScope.cancel", fn, "no assignment `self._cancel_reason = f\"" + TAG_PREFIX + "...\"` found")


# ---------------------------------------------------------------------------------------------------------------
# the walk translator
# ---------------------------------------------------------------------------------------------------------------

class Ctx:
    """Symbolic state of one loop iteration."""

    def __init__(self, acc, advanced=False, effect=None, guarded=False):
        self.acc = acc            # Coq expression of the accumulator (None if the function has none)
        self.advanced = advanced  # pointer already advanced in this iteration
        self.effect = effect      # Coq expression recorded by the effect statement (restart target)
        self.guarded = guarded    # inside the then-branch of the look-ahead test (exc chains)

    def copy(self, **kw):
        c = Ctx(self.acc, self.advanced, self.effect, self.guarded)
        for k, v in kw.items():
            setattr(c, k, v)
        return c


class Walk:
    """kind: 'bool' (returns True/False), 'raises', 'spins', 'xtime', 'target'; rec: 'scope' | 'exc'."""

    def __init__(self, name: str, fn, kind: str, rec: str, coq_name: str, pointer_param: str | None = None):
        self.name, self.fn, self.kind, self.rec, self.coq = name, fn, kind, rec, coq_name
        self.v = pointer_param    # pointer variable
        self.accvar = None
        self.acc_init = None
        self.early_returns = []   # (node, coq value) of preamble early returns
        self.while_true = False
        self.post = []
        self.init_dump = None     # dump of `_task_states[task].cancel_scope` when the pointer is initialised from it

    # ----- helpers ---------------------------------------------------------------------------------------
    def R(self, node, what):
        refuse(self.name, node, what)

    def is_v(self, n) -> bool:
        return isinstance(n, ast.Name) and n.id == self.v

    def attr_of_v(self, n):
        if isinstance(n, ast.Attribute) and self.is_v(n.value):
            return n.attr
        return None

    def default_value(self, ctx: Ctx) -> str:
        """value of `return` without expression / falling off the end of the function"""
        if self.kind in ("raises", "spins"):
            return "false"
        if self.kind == "target":
            return ctx.effect if ctx.effect is not None else "None"
        return None

    def const_value(self, node, value, ctx: Ctx) -> str:
        if value is None:
            d = self.default_value(ctx)
            if d is None:
                self.R(node, "`return` without a value in a function whose result is used")
            return d
        if self.kind == "bool":
            if isinstance(value, ast.Constant) and value.value is True:
                return "true"
            if isinstance(value, ast.Constant) and value.value is False:
                return "false"
            self.R(node, f"return value is not the constant True/False: {describe(value)}")
        if self.kind == "xtime":
            if isinstance(value, ast.Name) and value.id == self.accvar:
                return ctx.acc
            x = self.xconst(value)
            if x is not None:
                return x
            self.R(node, f"return value is neither the accumulator nor +-math.inf: {describe(value)}")
        self.R(node, f"function of kind {self.kind} must not return a value: {describe(value)}")

    @staticmethod
    def xconst(n):
        if dump(n) == dump(ast.parse("math.inf", mode="eval").body):
            return "XInf"
        if dump(n) == dump(ast.parse("-math.inf", mode="eval").body):
            return "XNegInf"
        return None

    # ----- tests -----------------------------------------------------------------------------------------
    def test(self, n, positive_guard: list) -> str:
        """Coq boolean for a test on the current record `x`; positive_guard collects look-ahead facts."""
        if isinstance(n, ast.UnaryOp) and isinstance(n.op, ast.Not):
            return f"negb ({self.test(n.operand, [])})"
        if isinstance(n, ast.BoolOp):
            if self.rec == "exc" and self.is_tag_test(n):
                return "x_has_scope_tag x"
            op = "&&" if isinstance(n.op, ast.And) else "||"
            parts = [self.test(v, positive_guard if isinstance(n.op, ast.And) else []) for v in n.values]
            return "(" + f" {op} ".join(parts) + ")"
        if self.rec == "scope":
            a = self.attr_of_v(n)
            if a in ("_cancel_called", "cancel_called"):
                return "r_cancelled x"
            if a in ("_shield", "shield"):
                return "r_shield x"
            if isinstance(n, ast.Compare) and len(n.ops) == 1 and len(n.comparators) == 1 \
                    and self.attr_of_v(n.left) == "_cancel_handle" \
                    and isinstance(n.comparators[0], ast.Constant) and n.comparators[0].value is None:
                if isinstance(n.ops[0], ast.Is):
                    return "negb (r_chandle x)"
                if isinstance(n.ops[0], ast.IsNot):
                    return "r_chandle x"
        else:
            want = ast.parse(f"isinstance({self.v}.__context__, CancelledError)", mode="eval").body
            if dump(n) == dump(want):
                positive_guard.append("next")
                return "next_is_cancelled_error rest"
        self.R(n, f"unsupported test {describe(n)}")

    def is_tag_test(self, n) -> bool:
        v = self.v
        want = ast.parse(
            f"{v}.args and isinstance({v}.args[0], str) and {v}.args[0].startswith({TAG_PREFIX!r})", mode="eval").body
        return dump(n) == dump(want)

    # ----- statements ------------------------------------------------------------------------------------
    def after_loop(self, ctx: Ctx, node=None) -> str:
        """the code after the loop, evaluated with the current accumulator/effect"""
        post = self.post
        if not post:
            d = self.default_value(ctx)
            if d is None:
                self.R(node or self.fn, "function can fall off its end although its value is used")
            return d
        if len(post) == 1 and isinstance(post[0], ast.Return):
            return self.const_value(post[0], post[0].value, ctx)
        self.R(post[0], f"unsupported statement after the loop: {describe(post[0])}")

    def loop_next(self, ctx: Ctx, node) -> str:
        if not ctx.advanced:
            self.R(node, "the loop body can reach the next iteration without advancing the pointer "
                         "(walk would not terminate / is not structural)")
        args = ["rest"]
        if self.kind == "xtime":
            args.append(f"({ctx.acc})")
        if self.kind == "target":
            if ctx.effect is not None:
                self.R(node, "the walk continues after `_deliver_cancellation` was invoked (more than one target)")
            args.insert(0, "(S i)")
        return f"{self.coq}_from {' '.join(args)}"

    def block(self, stmts, ctx: Ctx, fall, ind: str) -> str:
        if not stmts:
            return fall(ctx)
        s, rest = stmts[0], stmts[1:]

        def dead(what):
            if rest:
                self.R(rest[0], f"unreachable statement after `{what}`: {describe(rest[0])}")

        if ctx.advanced and not isinstance(s, ast.Continue):
            self.R(s, f"statement after the pointer advance in the same iteration: {describe(s)}")
        if isinstance(s, ast.Return):
            dead("return")
            return self.const_value(s, s.value, ctx)
        if isinstance(s, ast.Break):
            dead("break")
            return self.after_loop(ctx, s)
        if isinstance(s, ast.Continue):
            dead("continue")
            return self.loop_next(ctx, s)
        if isinstance(s, ast.If):
            guard: list = []
            t = self.test(s.test, guard)
            then_ctx = ctx.copy(guarded=ctx.guarded or ("next" in guard))
            k = lambda c: self.block(rest, c, fall, ind + "  ")  # noqa: E731
            a = self.block(s.body, then_ctx, k, ind + "  ")
            b = self.block(s.orelse, ctx.copy(), k, ind + "  ")
            return f"if {t}\n{ind}then {a}\n{ind}else {b}"
        if isinstance(s, ast.Raise):
            if self.kind != "raises":
                self.R(s, f"`raise` in a walk that is not check_cancelled: {describe(s)}")
            e = s.exc
            if not (isinstance(e, ast.Call) and isinstance(e.func, ast.Name) and e.func.id == "CancelledError"
                    and s.cause is None):
                self.R(s, f"raise of something other than CancelledError(...): {describe(s)}")
            dead("raise")
            return "true"
        if isinstance(s, ast.Expr) and isinstance(s.value, ast.Await):
            if self.kind != "spins":
                self.R(s, f"`await` in a walk that is not checkpoint_if_cancelled: {describe(s)}")
            if dump(s.value.value) != dump(ast.parse("sleep(0)", mode="eval").body):
                self.R(s, f"await of something other than sleep(0): {describe(s)}")
            # F46: the yield must be followed directly by the restart of the walk from the task's own scope
            if not rest:
                self.R(s, "`await sleep(0)` is not followed by the restart of the walk "
                          f"`{self.v} = _task_states[task].cancel_scope` (pre-F46 shape: the same scope would be re-tested)")
            r0 = rest[0]
            ok = (self.init_dump is not None and isinstance(r0, ast.Assign) and len(r0.targets) == 1
                  and isinstance(r0.targets[0], ast.Name) and r0.targets[0].id == self.v
                  and dump(r0.value) == self.init_dump)
            if not ok:
                self.R(r0, f"statement after `await sleep(0)` is not the restart `{self.v} = <pointer initialisation>`: "
                           f"{describe(r0)}")
            if rest[1:]:
                self.R(rest[1], f"statement after the restart of the walk in the same block: {describe(rest[1])}")
            # the iteration must end here: the next iteration starts again at the task's current scope
            probe = fall(ctx.copy(advanced=False, effect="SPIN"))
            if probe != "SPIN-END":
                self.R(s, "`await sleep(0)` + restart is followed by further statements in the iteration")
            return "true"
        if isinstance(s, ast.Expr) and isinstance(s.value, ast.Call):
            want = ast.parse(f"{self.v}._deliver_cancellation({self.v})", mode="eval").body
            if self.kind == "target" and dump(s.value) == dump(want):
                if ctx.effect is not None:
                    self.R(s, "`_deliver_cancellation` invoked twice on one path")
                return self.block(rest, ctx.copy(effect="Some i"), fall, ind)
            self.R(s, f"unsupported call statement {describe(s)}")
        if isinstance(s, ast.Assign) and len(s.targets) == 1 and isinstance(s.targets[0], ast.Name):
            tgt = s.targets[0].id
            if tgt == self.v and self.rec == "scope" and self.attr_of_v(s.value) == "_visible_parent_scope":
                if not HAVE_VPS:
                    self.R(s, "walk advances through `_visible_parent_scope` but CancelScope defines no such property")
                # the property returns None (the loop ends) when its test holds, else the parent
                stop_expr = self.after_loop(ctx, s)
                cont = self.block(rest, ctx.copy(advanced=True), fall, ind + "  ")
                return f"if gen_visible_parent_stops x\n{ind}then {stop_expr}\n{ind}else {cont}"
            if tgt == self.v:
                link = "_parent_scope" if self.rec == "scope" else "__context__"
                if self.attr_of_v(s.value) != link:
                    self.R(s, f"pointer assignment is not `{self.v} = {self.v}.{link}`: {describe(s)}")
                if self.while_true and not ctx.guarded:
                    self.R(s, "pointer advance inside `while True` is not guarded by "
                              f"`isinstance({self.v}.__context__, CancelledError)`")
                return self.block(rest, ctx.copy(advanced=True), fall, ind)
            if self.kind == "xtime" and tgt == self.accvar:
                x = self.xconst(s.value)
                if x is not None:
                    return self.block(rest, ctx.copy(acc=x), fall, ind)
                want = ast.parse(f"min({self.accvar}, {self.v}.deadline)", mode="eval").body
                want2 = ast.parse(f"min({self.accvar}, {self.v}._deadline)", mode="eval").body
                if dump(s.value) in (dump(want), dump(want2)):
                    return self.block(rest, ctx.copy(acc=f"xmin ({ctx.acc}) (r_deadline x)"), fall, ind)
                self.R(s, f"unsupported accumulator update {describe(s)}")
            self.R(s, f"assignment to `{tgt}` inside the loop: {describe(s)}")
        self.R(s, f"unsupported statement {describe(s)}")

    # ----- preamble --------------------------------------------------------------------------------------
    def preamble(self, stmts):
        """consume everything before the `while`; returns the remaining statements (while + post)"""
        i = 0
        task_var = None
        while i < len(stmts) and not isinstance(stmts[i], ast.While):
            s = stmts[i]
            i += 1
            # v[: T] = self | threadlocals.current_cancel_scope
            if isinstance(s, (ast.Assign, ast.AnnAssign)):
                tgt = s.target if isinstance(s, ast.AnnAssign) else (s.targets[0] if len(s.targets) == 1 else None)
                val = s.value
                if isinstance(tgt, ast.Name) and val is not None:
                    if dump(val) in (dump(ast.parse("self", mode="eval").body),
                                     dump(ast.parse("threadlocals.current_cancel_scope", mode="eval").body)):
                        if self.v is not None:
                            self.R(s, "second pointer initialisation")
                        self.v = tgt.id
                        continue
                    if dump(val) == dump(ast.parse("current_task()", mode="eval").body):
                        task_var = tgt.id
                        continue
                    if self.kind == "xtime" and self.xconst(val) is not None and self.accvar is None:
                        self.accvar, self.acc_init = tgt.id, self.xconst(val)
                        continue
                self.R(s, f"unsupported statement before the loop: {describe(s)}")
            if isinstance(s, ast.If) and not s.orelse and len(s.body) == 1 and isinstance(s.body[0], ast.Return):
                t = s.test
                ok = False
                if isinstance(t, ast.Compare) and len(t.ops) == 1 and isinstance(t.ops[0], ast.Is) \
                        and isinstance(t.comparators[0], ast.Constant) and t.comparators[0].value is None:
                    if isinstance(t.left, ast.Name) and t.left.id == task_var:
                        ok = True
                    if isinstance(t.left, ast.NamedExpr) and isinstance(t.left.target, ast.Name) \
                            and dump(t.left.value) == dump(ast.parse("current_task()", mode="eval").body):
                        task_var = t.left.target.id
                        ok = True
                if ok:
                    self.early_returns.append(s.body[0])
                    continue
                self.R(s, f"unsupported guard before the loop: {describe(s)}")
            if isinstance(s, ast.Try) and not s.orelse and not s.finalbody and len(s.body) == 1 \
                    and len(s.handlers) == 1 and task_var is not None:
                b, h = s.body[0], s.handlers[0]
                want = ast.parse(f"_task_states[{task_var}].cancel_scope", mode="eval").body
                if isinstance(b, ast.Assign) and len(b.targets) == 1 and isinstance(b.targets[0], ast.Name) \
                        and dump(b.value) == dump(want) \
                        and isinstance(h.type, ast.Name) and h.type.id == "KeyError" and h.name is None \
                        and len(h.body) == 1 and isinstance(h.body[0], ast.Return):
                    if self.v is not None:
                        self.R(s, "second pointer initialisation")
                    self.v = b.targets[0].id
                    self.init_dump = dump(b.value)
                    self.early_returns.append(h.body[0])
                    continue
                self.R(s, f"unsupported try statement before the loop: {describe(s)}")
            self.R(s, f"unsupported statement before the loop: {describe(s)}")
        return stmts[i:]

    # ----- whole function --------------------------------------------------------------------------------
    def translate(self) -> str:
        body = strip_doc(self.fn.body)
        rest = self.preamble(body)
        if not rest or not isinstance(rest[0], ast.While):
            self.R(self.fn, "no `while` loop found")
        loop, self.post = rest[0], rest[1:]
        if self.v is None:
            self.R(loop, "the loop pointer is not initialised from self / the current scope / a parameter")
        if loop.orelse:
            self.R(loop, "`while ... else`")
        t = loop.test
        if isinstance(t, ast.Constant) and t.value is True:
            if self.rec != "exc":
                self.R(loop, "`while True` over a scope chain")
            self.while_true = True
        elif self.is_v(t):
            pass  # truthiness; check_no_truthiness() guarantees it means `is not None`
        elif isinstance(t, ast.Compare) and self.is_v(t.left) and len(t.ops) == 1 and isinstance(t.ops[0], ast.IsNot) \
                and isinstance(t.comparators[0], ast.Constant) and t.comparators[0].value is None:
            pass
        else:
            self.R(loop, f"unsupported loop condition {describe(t)}")
        if self.kind == "xtime" and self.accvar is None:
            self.R(self.fn, "no accumulator initialisation `acc = math.inf` before the loop")

        acc0 = "acc" if self.kind == "xtime" else None
        ctx0 = Ctx(acc0)

        def fall(c: Ctx) -> str:
            if c.effect == "SPIN":
                if c.advanced:
                    self.R(loop, "the pointer is advanced after `await sleep(0)` in the same iteration")
                return "SPIN-END"
            return self.loop_next(c, loop)

        body_expr = self.block(loop.body, ctx0, fall, "      ")
        if self.while_true:
            nil_expr = "false (* not reachable: the chain starts with the exception itself *)"
            if self.post:
                self.R(self.post[0], "statement after `while True`")
        else:
            nil_expr = self.after_loop(ctx0, loop)
        # early returns of the preamble must agree with the value on the empty chain
        empty_val = self.after_loop(Ctx(self.acc_init), loop) if not self.while_true else None
        for r in self.early_returns:
            val = self.const_value(r, r.value, Ctx(self.acc_init))
            if val != empty_val:
                self.R(r, f"early return {val} differs from the function's value on the empty chain {empty_val}")

        rec_t = "scope_rec" if self.rec == "scope" else "exc_rec"
        res_t = {"bool": "bool", "raises": "bool", "spins": "bool", "xtime": "xtime", "target": "option nat"}[self.kind]
        params = "(chain : list " + rec_t + ")"
        if self.kind == "xtime":
            params += " (acc : xtime)"
        if self.kind == "target":
            params = "(i : nat) " + params
        out = [f"(* {self.name} *)",
               f"Fixpoint {self.coq}_from {params} {{struct chain}} : {res_t} :=",
               "  match chain with",
               f"  | [] => {nil_expr}",
               "  | x :: rest =>",
               f"      {body_expr}",
               "  end."]
        init_args = {"xtime": f"chain {self.acc_init}", "target": "0 chain"}.get(self.kind, "chain")
        out.append(f"Definition {self.coq} (chain : list {rec_t}) : {res_t} := {self.coq}_from {init_args}.")
        return "\n".join(out)


# ---------------------------------------------------------------------------------------------------------------
# _parent_cancellation_is_visible_to_us: a boolean expression over (self :: rest)
# ---------------------------------------------------------------------------------------------------------------

def translate_parent_visible(fn) -> str:
    name = "CancelScope._parent_cancellation_is_visible_to_us"
    body = strip_doc(fn.body)
    if len(body) != 1 or not isinstance(body[0], ast.Return) or body[0].value is None:
        refuse(name, fn, "body is not a single `return <expr>`")
    E = lambda src: dump(ast.parse(src, mode="eval").body)  # noqa: E731

    def expr(n, have_parent: bool) -> str:
        if isinstance(n, ast.UnaryOp) and isinstance(n.op, ast.Not):
            return f"negb ({expr(n.operand, False)})"
        if isinstance(n, ast.BoolOp):
            parts = []
            hp = have_parent
            for v in n.values:
                parts.append(expr(v, hp))
                if isinstance(n.op, ast.And) and dump(v) == E("self._parent_scope is not None"):
                    hp = True
            op = "&&" if isinstance(n.op, ast.And) else "||"
            return "(" + f" {op} ".join(parts) + ")"
        d = dump(n)
        if d == E("self._parent_scope is not None"):
            return "negb (is_nil rest)"
        if d == E("self._parent_scope is None"):
            return "is_nil rest"
        if d in (E("self.shield"), E("self._shield")):
            return "r_shield x"
        if d in (E("self.cancel_called"), E("self._cancel_called")):
            return "r_cancelled x"
        if d == E("self._parent_scope._effectively_cancelled"):
            if not have_parent:
                refuse(name, n, "`self._parent_scope._effectively_cancelled` is not guarded by an earlier conjunct "
                                "`self._parent_scope is not None`")
            return "gen_effectively_cancelled rest"
        refuse(name, n, f"unsupported expression {describe(n)}")

    e = expr(body[0].value, False)
    return "\n".join([
        f"(* {name} *)",
        "Definition gen_parent_visible (chain : list scope_rec) : bool :=",
        "  match chain with",
        "  | [] => false (* not reachable: the chain starts with the scope itself *)",
        f"  | x :: rest => {e}",
        "  end.",
    ])


# ---------------------------------------------------------------------------------------------------------------

def translate_visible_parent(cls: ast.ClassDef):
    """CancelScope._visible_parent_scope (added by the F42 fix), if present: returns Coq text or None."""
    fns = [n for n in cls.body if isinstance(n, ast.FunctionDef) and n.name == "_visible_parent_scope"]
    if not fns:
        return None
    name = "CancelScope._visible_parent_scope"
    if len(fns) != 1 or "property" not in deco_names(fns[0]):
        refuse(name, fns[0], "is not a single @property")
    body = strip_doc(fns[0].body)
    E = lambda src: dump(ast.parse(src, mode="eval").body)  # noqa: E731
    ok = (len(body) == 2 and isinstance(body[0], ast.If) and not body[0].orelse and len(body[0].body) == 1
          and isinstance(body[0].body[0], ast.Return)
          and (body[0].body[0].value is None or dump(body[0].body[0].value) == E("None"))
          and isinstance(body[1], ast.Return) and body[1].value is not None
          and dump(body[1].value) == E("self._parent_scope"))
    if not ok:
        refuse(name, fns[0], "body is not `if <test>: return None` followed by `return self._parent_scope`")

    def ptest(n) -> str:
        if isinstance(n, ast.UnaryOp) and isinstance(n.op, ast.Not):
            return f"negb ({ptest(n.operand)})"
        if isinstance(n, ast.BoolOp):
            op = "&&" if isinstance(n.op, ast.And) else "||"
            return "(" + f" {op} ".join(ptest(v) for v in n.values) + ")"
        d = dump(n)
        if d in (E("self._shield"), E("self.shield")):
            return "r_shield x"
        if d in (E("self._cancel_called"), E("self.cancel_called")):
            return "r_cancelled x"
        if d == E("self._host_task is None"):
            return "negb (r_hosted x)"
        if d == E("self._host_task is not None"):
            return "r_hosted x"
        refuse(name, n, f"unsupported test {describe(n)}")

    return "\n".join([f"(* {name}: true = the property returns None *)",
                      f"Definition gen_visible_parent_stops (x : scope_rec) : bool := {ptest(body[0].test)}."])


HEADER = """(* GENERATED by tools/translate_chain.py from src/anyio/_backends/_asyncio.py -- do not edit.
   Regenerated by every `bin/check C04` / `bin/check C06`; ChainEq.v proves each function equal to its
   specification in ChainSpec.v.  x = the current scope (or exception) of the walk, rest = the chain above it. *)
From AV Require Import Base Machine ChainSpec.
"""


def generate(repo: Path) -> str:
    src = repo / "src" / "anyio" / "_backends" / "_asyncio.py"
    base_src = repo / "src" / "anyio" / "_core" / "_tasks.py"
    try:
        mod = ast.parse(src.read_text(), filename=str(src))
        base_mod = ast.parse(base_src.read_text(), filename=str(base_src))
    except (OSError, SyntaxError) as e:
        raise Refuse(f"cannot read/parse the source: {e}")
    try:
        import guard
        guard.check("_backends/_asyncio.py", mod, ["CancelScope", "AsyncIOBackend"])
    except guard.GuardError as e:
        raise Refuse(str(e))
    cs = find_class(mod, "CancelScope")
    be = find_class(mod, "AsyncIOBackend")
    check_getter(cs, "cancel_called", "_cancel_called")
    check_getter(cs, "shield", "_shield")
    check_getter(cs, "deadline", "_deadline")
    check_no_truthiness(cs, "CancelScope")
    check_no_truthiness(find_class(base_mod, "CancelScope"), "anyio._core._tasks.CancelScope")
    check_cancel_message(cs)

    def prop(fn, nm):
        if "property" not in deco_names(fn):
            refuse(nm, fn, "is no longer a @property")
        return fn

    parts = [HEADER]
    global HAVE_VPS
    vps = translate_visible_parent(cs)
    HAVE_VPS = vps is not None
    if vps is not None:
        parts.append(vps)
    f = prop(find_func(cs.body, "_effectively_cancelled", "CancelScope"), "CancelScope._effectively_cancelled")
    parts.append(Walk("CancelScope._effectively_cancelled", f, "bool", "scope", "gen_effectively_cancelled").translate())
    f = prop(find_func(cs.body, "_parent_cancellation_is_visible_to_us", "CancelScope"),
             "CancelScope._parent_cancellation_is_visible_to_us")
    parts.append(translate_parent_visible(f))
    f = find_func(be.body, "checkpoint_if_cancelled", "AsyncIOBackend")
    if not isinstance(f, ast.AsyncFunctionDef):
        refuse("AsyncIOBackend.checkpoint_if_cancelled", f, "is no longer a coroutine function")
    parts.append(Walk("AsyncIOBackend.checkpoint_if_cancelled", f, "spins", "scope", "gen_ckif_spins").translate())
    parts.append("(* after the yield the walk restarts from the task's own scope (`_task_states[task].cancel_scope` is read\n"
                 "   again, F46): the machine re-evaluates gen_ckif_spins on the chain of k_cur at every resumption *)\n"
                 "Definition gen_ckif_restarts_from_task_scope : bool := true.")
    f = find_func(be.body, "current_effective_deadline", "AsyncIOBackend")
    parts.append(Walk("AsyncIOBackend.current_effective_deadline", f, "xtime", "scope", "gen_eff_deadline").translate())
    f = find_func(be.body, "check_cancelled", "AsyncIOBackend")
    parts.append(Walk("AsyncIOBackend.check_cancelled", f, "raises", "scope", "gen_check_cancelled_raises").translate())
    f = find_func(cs.body, "_restart_cancellation", "CancelScope")
    if "staticmethod" not in deco_names(f) or [a.arg for a in f.args.args] != ["scope"]:
        refuse("CancelScope._restart_cancellation", f, "is not a staticmethod of one parameter `scope`")
    parts.append(Walk("CancelScope._restart_cancellation", f, "target", "scope", "gen_restart_target",
                      pointer_param="scope").translate())
    f = find_func(mod.body, "is_anyio_cancellation", "module")
    if [a.arg for a in f.args.args] != ["exc"]:
        refuse("is_anyio_cancellation", f, "parameter list is not (exc)")
    parts.append(Walk("is_anyio_cancellation", f, "bool", "exc", "gen_is_anyio_cancellation",
                      pointer_param="exc").translate())
    # _restart_cancellation_in_parent must start the walk at the parent
    f = find_func(cs.body, "_restart_cancellation_in_parent", "CancelScope")
    b = strip_doc(f.body)
    if not (len(b) == 1 and isinstance(b[0], ast.Expr)
            and dump(b[0].value) == dump(ast.parse("self._restart_cancellation(self._parent_scope)", mode="eval").body)):
        refuse("CancelScope._restart_cancellation_in_parent", f,
               "body is not `self._restart_cancellation(self._parent_scope)`")
    return "\n\n".join(parts) + "\n"


def write_if_changed(text: str) -> bool:
    if OUT.exists() and OUT.read_text() == text:
        return False
    tmp = OUT.with_suffix(".v.tmp%d" % os.getpid())
    tmp.write_text(text)
    os.replace(tmp, OUT)
    return True


def main() -> int:
    repo = Path(os.environ.get("VERIF_REPO", "/repo"))
    try:
        text = generate(repo)
    except Refuse as e:
        msg = str(e)
        print(f"translate_chain: REFUSED: {msg}", file=sys.stderr)
        safe = re.sub(r"[^A-Za-z0-9_ .:,()=<>+-]", " ", msg)
        write_if_changed(
            "(* GENERATED by tools/translate_chain.py: the translator REFUSED the current source (tie T is broken). *)\n"
            "From AV Require Import Base Machine ChainSpec.\n"
            f'Definition tie_T_broken : True := ltac:(fail 0 "translate_chain.py refused:" "{safe}").\n')
        return 2
    changed = write_if_changed(text)
    print(f"translate_chain: ok ({'rewritten' if changed else 'unchanged'}) {OUT.relative_to(VERIF)}")
    return 0


if __name__ == "__main__":
    sys.exit(main())
