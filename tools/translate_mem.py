#!/usr/bin/env python3
"""Tie T for C12 / C13: regenerates coq/prims/MemGen.v (terms of coq/prims/MemImp.v) from MemoryObjectSendStream,
MemoryObjectReceiveStream and _MemoryObjectStreamState in $VERIF_REPO/src/anyio/streams/memory.py.  MemGenEq.v proves
that interpreting them is what MemStream.step does.   Usage: translate_mem.py [outdir]

Same engine idea as translate_prims.py / translate_cond.py (helpers imported from translate_prims.py): locals renamed
to canonical names (parameter `item`; `event` for send_event / receive_event / the loop variable; `receiver`;
`events` for the snapshot list), atoms matched literally against the tables below after `ast.unparse`, anything else
refused (FAIL CLOSED: MemGen.v is replaced by a file that does not type-check and carries the message; exit status 2).
Control structure accepted:
  cond  ::= ATOM | not cond | cond and cond | cond or cond
  stmt  ::= ATOM | pass | return [None] | RETURN-ATOM | raise E [from None] | raise (in the handler guarding an await)
          | LOCAL[, LOCAL] = BINDER        | self.send_nowait(item)         | if cond: block [elif/else]
          | try: STMT except WouldBlock: block                                (STMT await-free)
          | while self._state.waiting_receivers: block    | for event in events: block          (no await inside)
          | await checkpoint()                             -> SSuspend AwCheckpoint (first statement of send/receive)
          | try: await event.wait()  except BaseException: block              (send)
          | try: await event.wait()  finally: block                           (receive; the finally block is copied
                                                                               into both continuations)
Continuation segments: <m>_<pt>_resumed = what follows the await; <m>_<pt>_cancelled = handler / finally copy, then
`SReraise`.  Dataclass fields, __post_init__, aclose, statistics, __enter__/__exit__, _MemoryObjectStreamState and the
set of methods are checked literally.
"""
from __future__ import annotations

import ast
import copy
import os
import sys
from pathlib import Path

sys.path.insert(0, str(Path(__file__).resolve().parent))
from translate_prims import Refuse, Ren, is_doc, refuse, seq  # noqa: E402

REPO = Path(os.environ.get("VERIF_REPO", "/repo"))
OUTDIR = Path(sys.argv[1]) if len(sys.argv) > 1 else Path(__file__).resolve().parent.parent / "coq" / "prims"
SRC = "src/anyio/streams/memory.py"
EXN = {"WouldBlock": "EWouldBlock", "ClosedResourceError": "EClosed", "BrokenResourceError": "EBroken",
       "EndOfStream": "EEnd"}
BINDERS = {"Event()": (("event",), "SNewEvent"),
           "_MemoryObjectItemReceiver[T_co]()": (("receiver",), "SNewReceiver"),
           "self._state.waiting_receivers.popitem(last=False)": (("event", "receiver"), "SPopRecv"),
           "self._state.waiting_senders.popitem(last=False)": (("event", "item"), "SPopSender"),
           "list(self._state.waiting_senders.keys())": (("events",), "SSnapSendKeys"),
           "list(self._state.waiting_receivers.keys())": (("events",), "SSnapRecvKeys")}
CONDS = {"self._closed": "CClosed",
         "self._state.open_receive_channels": "(CNot COpenRecvZero)", "self._state.open_receive_channels == 0": "COpenRecvZero",
         "self._state.open_send_channels": "(CNot COpenSendZero)", "self._state.open_send_channels == 0": "COpenSendZero",
         "self._state.waiting_receivers": "CRecvsNonEmpty", "self._state.waiting_senders": "CSendsNonEmpty",
         "receiver.task_info.has_pending_cancellation()": "CRecvPending",
         "len(self._state.buffer) < self._state.max_buffer_size": "CBufferRoom", "self._state.buffer": "CBufferNonEmpty",
         "event in self._state.waiting_senders": "CInSenders"}
STMTS = {"receiver.item = item": "SSetItem", "event.set()": "SEventSet", "self._state.buffer.append(item)": "SBufAppend",
         "self._state.waiting_senders[event] = item": "SSenderSet",
         "self._state.waiting_senders.pop(event, None)": "SPopSenderKey",
         "del self._state.waiting_senders[event]": "SDelSender",
         "self._state.waiting_receivers[event] = receiver": "SRecvSet",
         "self._state.waiting_receivers.pop(event, None)": "SPopRecvKey", "self._closed = True": "SSetClosed",
         "self._state.open_send_channels -= 1": "SDecOpenSend", "self._state.open_receive_channels -= 1": "SDecOpenRecv",
         "self._state.waiting_receivers.clear()": "SClearRecvs",
         "return self._state.buffer.popleft()": "SReturnPopleft",
         "return MemoryObjectSendStream(_state=self._state)": "SReturnNewSend",
         "return MemoryObjectReceiveStream(_state=self._state)": "SReturnNewRecv",
         "try:\n    return receiver.item\nexcept AttributeError:\n    raise EndOfStream from None": "SReturnItemOrEnd"}
CALLS = {"self.send_nowait(item)": ("SCall", "send_nowait"), "return self.receive_nowait()": ("SReturnCall", "receive_nowait")}
COMMON_LIT = {"aclose": ["self.close()"], "statistics": ["return self._state.statistics()"], "__enter__": ["return self"],
              "__exit__": ["self.close()"]}
SEND = dict(cls="MemoryObjectSendStream", pre="snd_",
            order=[("send_nowait", ("item",), False), ("send", ("item",), True), ("clone", (), False), ("close", (), False)],
            points={"send": {"ck", "event"}}, post="self._state.open_send_channels += 1",
            allowed={"__post_init__", "send_nowait", "send", "clone", "close", "aclose", "statistics", "__enter__",
                     "__exit__", "__del__"})
RECV = dict(cls="MemoryObjectReceiveStream", pre="rcv_",
            order=[("receive_nowait", (), False), ("receive", (), True), ("clone", (), False), ("close", (), False)],
            points={"receive": {"ck", "event"}}, post="self._state.open_receive_channels += 1",
            allowed={"__post_init__", "receive_nowait", "receive", "clone", "close", "aclose", "statistics", "__enter__",
                     "__exit__", "__del__"})
STATE_FIELDS = ["max_buffer_size: float = field()", "buffer: deque[T_Item] = field(init=False, default_factory=deque)",
                "open_send_channels: int = field(init=False, default=0)",
                "open_receive_channels: int = field(init=False, default=0)",
                "waiting_receivers: OrderedDict[Event, _MemoryObjectItemReceiver[T_Item]] = field(init=False, default_factory=OrderedDict)",
                "waiting_senders: OrderedDict[Event, T_Item] = field(init=False, default_factory=OrderedDict)"]
STATE_STATS = ["return MemoryObjectStreamStatistics(len(self.buffer), self.max_buffer_size, self.open_send_channels, "
               "self.open_receive_channels, len(self.waiting_senders), len(self.waiting_receivers))"]


def terminates(stmts):
    if not stmts:
        return False
    if isinstance(stmts, str):
        return stmts.startswith("(SRaise") or stmts == "SReraise"
    last = stmts[-1]
    if isinstance(last, str):
        return terminates(last)
    if isinstance(last, (ast.Return, ast.Raise)):
        return True
    if isinstance(last, ast.Try) and " ".join(ast.unparse(last).split()).startswith("try: return receiver.item"):
        return True
    return isinstance(last, ast.If) and bool(last.orelse) and terminates(last.body) and terminates(last.orelse)


class Method:
    def __init__(self, cfg, name, fn, params, is_async, defs):
        self.cfg, self.fn, self.is_async, self.defs = cfg, fn, is_async, defs
        self.name = cfg["pre"] + name
        args = [a.arg for a in fn.args.args]
        if len(args) != 1 + len(params) or fn.args.vararg or fn.args.kwarg or fn.args.kwonlyargs or args[0] != "self":
            refuse(self.name, fn, "unexpected signature")
        self.sym = dict(zip(args[1:], params))
        self.points, self.atoms, self.bound = {}, [], {}

    def canon(self, n):
        return ast.unparse(Ren(self.sym).visit(copy.deepcopy(n)))

    def atom(self, a):
        self.atoms.append(a.strip("()"))
        return a

    def cond(self, n):
        if isinstance(n, ast.BoolOp):
            op = "CAnd" if isinstance(n.op, ast.And) else "COr"
            out = self.cond(n.values[-1])
            for v in reversed(n.values[:-1]):
                out = f"({op} {self.cond(v)} {out})"
            return out
        c = self.canon(n)
        if c in CONDS:
            return CONDS[c]
        if isinstance(n, ast.UnaryOp) and isinstance(n.op, ast.Not):
            return f"(CNot {self.cond(n.operand)})"
        refuse(self.name, n, "unsupported condition")

    def block(self, stmts, K, fl):
        out = []
        for i, st in enumerate(stmts):
            if i and terminates(stmts[:i]):
                refuse(self.name, st, "statement after return/raise")
            out.append(self.stmt(st, [stmts[i + 1:]] + K, fl))
        return seq(out)

    def frames(self, K, fl):
        parts = []
        for i, fr in enumerate(K):
            if fr:
                parts.append(fr if isinstance(fr, str) else self.block(fr, K[i + 1:], fl))
                if terminates(fr):
                    break
        return seq(parts)

    def point(self, node, pt, nm, handler, K, fl, fin=None):
        if not self.is_async or fl["sync"] or fl["handler"]:
            refuse(self.name, node, "await in a loop, a try body, the handler of an await or a synchronous method")
        if self.points.setdefault(nm, node) is not node:
            refuse(self.name, node, f"second await of kind {nm}")
        base = f"{self.name}_{nm}"
        if base + "_resumed" not in self.defs:
            self.defs[base + "_resumed"] = self.defs[base + "_cancelled"] = None
            Kn = ([fin] if fin else []) + K
            self.defs[base + "_resumed"] = self.frames(Kn, dict(fl))
            if handler is None:
                f = self.block(fin, [], dict(fl, sync=True)) if fin else None
                self.defs[base + "_cancelled"] = seq([f, "SReraise"])
            else:
                h = self.block(handler, K, dict(fl, handler=True))
                self.defs[base + "_cancelled"] = seq([h, None if terminates(handler) else self.frames(Kn, dict(fl))])
        return self.atom(f"(SSuspend {pt})")

    def await_(self, st, aw, handler, K, fl, fin=None):
        v, c = aw.value, self.canon(aw.value)
        if c == "checkpoint()" and handler is None and not fin:
            return self.point(st, "AwCheckpoint", "ck", None, K, fl)
        if c == "event.wait()":
            return self.point(st, "AwEvent", "event", handler, K, fl, fin)
        refuse(self.name, aw, "unsupported await")

    def bind(self, st, targets, names):
        if id(st) in self.bound:
            return
        if len(targets) != len(names) or not all(isinstance(x, ast.Name) for x in targets):
            refuse(self.name, st, "unsupported binding target")
        for x, c in zip(targets, names):
            if (x.id in self.sym and self.sym[x.id] != c) or (c in self.sym.values() and self.sym.get(x.id) != c) \
                    or x.id == "self":
                refuse(self.name, st, f"local `{c}` must be bound once, to a fresh name")
            self.sym[x.id] = c
        self.bound[id(st)] = names

    def stmt(self, st, K, fl):
        nm = self.name
        if isinstance(st, str):
            return st
        if is_doc(st):
            return None
        if isinstance(st, ast.Pass):
            return "SSkip"
        if not isinstance(st, (ast.If, ast.While, ast.For)) and not (isinstance(st, ast.Try) and len(st.handlers) != 1):
            c = self.canon(st) if not isinstance(st, (ast.Assign, ast.AnnAssign)) else None
            if c in STMTS:
                return self.atom(STMTS[c])
            if c in CALLS:
                kind, callee = CALLS[c]
                callee = self.cfg["pre"] + callee + "_entry"
                if self.defs.get(callee) is None:
                    refuse(nm, st, "call of a method that is not translated yet")
                return self.atom(f"({kind} {callee})")
        if isinstance(st, ast.Return):
            if st.value is None or (isinstance(st.value, ast.Constant) and st.value.value is None):
                return self.atom("SReturn")
            refuse(nm, st, "unsupported return")
        if isinstance(st, ast.Raise):
            if st.cause is not None and not (isinstance(st.cause, ast.Constant) and st.cause.value is None):
                refuse(nm, st, "unsupported raise ... from")
            if st.exc is None and fl["handler"]:
                return self.atom("(SRaise ECancelled)")
            e = st.exc.func if isinstance(st.exc, ast.Call) else st.exc
            if isinstance(e, ast.Name) and e.id in EXN:
                return self.atom(f"(SRaise {EXN[e.id]})")
            refuse(nm, st, "unsupported raise")
        if isinstance(st, (ast.Assign, ast.AnnAssign)) and st.value is not None:
            tg = st.targets[0] if isinstance(st, ast.Assign) and len(st.targets) == 1 else getattr(st, "target", None)
            b = BINDERS.get(self.canon(st.value))
            if b and isinstance(tg, (ast.Name, ast.Tuple)):
                self.bind(st, tg.elts if isinstance(tg, ast.Tuple) else [tg], b[0])
                return self.atom(b[1])
            plain = f"{self.canon(tg)} = {self.canon(st.value)}" if tg is not None else ""
            if plain in STMTS:
                return self.atom(STMTS[plain])
            refuse(nm, st, "unsupported assignment")
        if isinstance(st, ast.Expr) and isinstance(st.value, ast.Await):
            return self.await_(st, st.value, None, K, fl)
        if isinstance(st, ast.If):
            c = self.cond(st.test)
            a = self.block(st.body, K, fl)
            b = self.block(st.orelse, K, fl) if st.orelse else "SSkip"
            return f"(SIf {c} {a} {b})"
        if isinstance(st, ast.Try) and len(st.body) == 1 and not st.orelse:
            b = st.body[0]
            if isinstance(b, ast.Expr) and isinstance(b.value, ast.Await):
                if len(st.handlers) == 1 and not st.finalbody and st.handlers[0].name is None \
                        and ast.unparse(st.handlers[0].type) in ("BaseException", "CancelledError"):
                    return self.await_(st, b.value, st.handlers[0].body, K, fl)
                if not st.handlers and st.finalbody:
                    return self.await_(st, b.value, None, K, fl, st.finalbody)
            elif len(st.handlers) == 1 and not st.finalbody and st.handlers[0].name is None \
                    and ast.unparse(st.handlers[0].type) in EXN:
                body = self.stmt(b, [], dict(fl, sync=True))
                hb = self.block(st.handlers[0].body, K, dict(fl, handler=False))
                return f"(STry {body} {EXN[ast.unparse(st.handlers[0].type)]} {hb} SSkip)"
            refuse(nm, st, "unsupported try statement")
        if isinstance(st, ast.While) and not st.orelse and not fl["loop"] \
                and self.canon(st.test) == "self._state.waiting_receivers":
            return f"(SWhileRecvs {self.block(st.body, [], dict(fl, loop=True, sync=True))})"
        if isinstance(st, ast.For) and not st.orelse and not fl["loop"] and isinstance(st.target, ast.Name) \
                and self.canon(st.iter) == "events":
            self.bind(st, [st.target], ("event",))
            return f"(SForKeys {self.block(st.body, [], dict(fl, loop=True, sync=True))})"
        refuse(nm, st, "unsupported statement")

    def run(self):
        fl = {"loop": False, "handler": False, "sync": False}
        self.defs[f"{self.name}_entry"] = self.block(self.fn.body, [], fl)
        want = self.cfg["points"].get(self.fn.name, set())
        if set(self.points) != want:
            raise Refuse(f"{self.name}: await points found {sorted(self.points)}, expected {sorted(want)}")
        return self


def find_class(mod, name):
    cl = [n for n in mod.body if isinstance(n, ast.ClassDef) and n.name == name]
    if len(cl) != 1 or [ast.unparse(d) for d in cl[0].decorator_list] != ["dataclass(eq=False)"]:
        raise Refuse(f"expected exactly one @dataclass(eq=False) class {name} in {SRC}")
    return cl[0]


def body_of(fn):
    return [ast.unparse(s) for s in fn.body if not is_doc(s)]


def translate(mod, cfg):
    cls = find_class(mod, cfg["cls"])
    fields = [ast.unparse(n) for n in cls.body if isinstance(n, ast.AnnAssign)]
    if len(fields) != 2 or not fields[0].startswith("_state: _MemoryObjectStreamState[") \
            or fields[1] != "_closed: bool = field(init=False, default=False)":
        raise Refuse(f"{cfg['cls']}: unexpected dataclass fields {fields}")
    fns = {}
    for n in cls.body:
        if isinstance(n, (ast.FunctionDef, ast.AsyncFunctionDef)):
            if n.name not in cfg["allowed"] or n.name in fns or n.decorator_list:
                refuse(cfg["cls"], n, "unexpected, duplicate or decorated method")
            fns[n.name] = n
    lit = dict(COMMON_LIT, __post_init__=[cfg["post"]])
    for name, text in lit.items():
        if name not in fns or body_of(fns[name]) != text:
            raise Refuse(f"{cfg['cls']}.{name}: expected exactly {text}")
    if "__del__" in fns and not body_of(fns["__del__"])[0].startswith("if not self._closed:\n    warnings.warn("):
        raise Refuse(f"{cfg['cls']}.__del__: expected only the ResourceWarning")
    defs, atoms = {}, {}
    for name, params, is_async in cfg["order"]:
        if name not in fns or isinstance(fns[name], ast.AsyncFunctionDef) != is_async:
            raise Refuse(f"class {cfg['cls']}: method {name} missing or of the wrong kind (async={is_async})")
        atoms[name] = Method(cfg, name, fns[name], params, is_async, defs).run().atoms
    return defs, atoms


def main():
    out = OUTDIR / "MemGen.v"
    lines = ["(* GENERATED by tools/translate_mem.py from anyio/streams/memory.py in /repo's source on every run of "
             "bin/check C12 / C13. *)", "From AV Require Import Base MemStream MemImp.", ""]
    report = []
    try:
        mod = ast.parse((REPO / SRC).read_text())
        try:
            import guard
            guard.check("streams/memory.py", mod)
        except guard.GuardError as e:
            raise Refuse(str(e))
        state = find_class(mod, "_MemoryObjectStreamState")
        if [ast.unparse(n) for n in state.body if isinstance(n, ast.AnnAssign)] != STATE_FIELDS:
            raise Refuse("_MemoryObjectStreamState: unexpected fields")
        sf = [n for n in state.body if isinstance(n, ast.FunctionDef)]
        if [f.name for f in sf] != ["statistics"] or body_of(sf[0]) != STATE_STATS:
            raise Refuse("_MemoryObjectStreamState: expected only statistics() returning the six counters")
        find_class(mod, "_MemoryObjectItemReceiver")
        for cfg in (SEND, RECV):
            defs, atoms = translate(mod, cfg)
            for name, term in defs.items():
                lines += [f"Definition {name} : stmt :=", f"  {term}.", ""]
                report.append(f"  {name} := {term}")
            report.insert(0, f"translate_mem: ok {cfg['cls']} segments=" + ",".join(defs) + " atoms="
                          + str({k: len(v) for k, v in atoms.items()}))
    except Refuse as e:
        msg = str(e).replace('"', "'")
        out.write_text("(* translator refused *)\nFrom AV Require Import Base MemImp.\n"
                       f'Definition refused : False := "translate_mem REFUSED: {msg}".\n')
        print("translate_mem: REFUSED:", e)
        return 2
    lines += ["Definition mem_prog : mprog :=",
              "  mkmprog snd_send_nowait_entry snd_send_entry snd_send_ck_resumed snd_send_ck_cancelled snd_send_event_resumed",
              "          snd_send_event_cancelled snd_clone_entry snd_close_entry rcv_receive_nowait_entry rcv_receive_entry",
              "          rcv_receive_ck_resumed rcv_receive_ck_cancelled rcv_receive_event_resumed rcv_receive_event_cancelled",
              "          rcv_clone_entry rcv_close_entry.", ""]
    text = "\n".join(lines)
    if not out.exists() or out.read_text() != text:
        out.write_text(text)
    print("\n".join(report))
    return 0


if __name__ == "__main__":
    sys.exit(main())
