#!/usr/bin/env python3
"""tools/mutate_translators.py [translator ...] - re-runs the archived mutation suite of the second audit
(hunt/audit_2026-09-23-late/translator_mutants.py + mutants_extra.py, 102 + 4 behaviour-changing mutants of /repo's source)
against the source-to-Coq translators and reports, per translator, refused / output differs / output IDENTICAL.
IDENTICAL is a hole: a behaviour-changing edit that the tie cannot see.  (DESIGN 11.19: 41 -> 0.)

Nothing under /repo or /verif/coq is written: the translators and guard files are copied to a scratch directory with
their output paths redirected, and the mutants are applied to a scratch copy of /repo/src."""
from __future__ import annotations

import os
import re
import shutil
import subprocess
import sys
import tempfile
from pathlib import Path

VERIF = Path(__file__).resolve().parent.parent
SUITE = VERIF / "hunt" / "audit_2026-09-23-late"
A, S, M, T = ("_backends/_asyncio.py", "_core/_synchronization.py", "streams/memory.py", "_core/_tasks.py")
TRANSLATOR = {"lock": "translate_lock.py", "prims": "translate_prims.py", "cond": "translate_cond.py", "mem": "translate_mem.py",
              "chain": "translate_chain.py", "timeouts": "translate_timeouts.py", "buffered": "translate_buffered.py",
              "text": "translate_text.py"}
MUTANTS: list = []


def m(tr, ident, rel, anchor, old, new, what):
    if ident != "P17":          # withdrawn by its author (not behaviour-changing)
        MUTANTS.append((tr, ident, rel, anchor, old, new, what))


def load_suite():
    for f in ("translator_mutants.py", "mutants_extra.py", "stream_mutants.py"):
        p = SUITE / f
        if p.exists():
            # the agent's own bookkeeping line at the end of the suite (a list `MUT` of its harness) is not ours
            src = "\n".join(ln for ln in p.read_text().splitlines() if not ln.startswith("MUT[:]"))
            exec(compile(src, str(p), "exec"), {"m": m, "A": A, "S": S, "M": M, "T": T, "__name__": "suite"})


def outputs(root: Path) -> dict:
    return {str(p.relative_to(root)): p.read_text() for p in sorted((root / "coq").rglob("*Gen.v"))}


def main() -> int:
    load_suite()
    only = set(sys.argv[1:])
    work = Path(tempfile.mkdtemp(prefix="mutate_translators_"))
    try:
        (work / "tools").mkdir()
        for f in list((VERIF / "tools").glob("*.py")) + [VERIF / "tools" / "guard_table.json"]:
            shutil.copy(f, work / "tools" / f.name)
        for d in ("coq/prims", "coq/scopes", "coq/pure"):
            (work / d).mkdir(parents=True)
        tree = work / "tree"
        shutil.copytree(Path(os.environ.get("VERIF_REPO", "/repo")) / "src", tree / "src")
        env = dict(os.environ, VERIF_REPO=str(tree))
        env.pop("VERIF_GEN_OUT", None)

        def run(script):
            # the scripts write relative to their own parent directory (work/coq/...)
            p = subprocess.run([sys.executable, str(work / "tools" / script)], env=env, capture_output=True, text=True, timeout=120)
            return p.returncode

        base = {}
        for tr, script in TRANSLATOR.items():
            rc = run(script)
            if rc != 0:
                print(f"baseline: {script} exits {rc} on the unchanged tree"); return 2
        base = outputs(work)
        table: dict[str, dict[str, list]] = {}
        for (tr, ident, rel, anchor, old, new, what) in MUTANTS:
            if only and tr not in only:
                continue
            f = tree / "src" / "anyio" / rel
            text = f.read_text()
            start = text.index(anchor) if anchor else 0
            i = text.find(old, start)
            if i < 0:
                table.setdefault(tr, {}).setdefault("does-not-apply", []).append(ident); continue
            f.write_text(text[:i] + new + text[i + len(old):])
            try:
                rc = run(TRANSLATOR[tr])
                verdict = "refused" if rc != 0 else ("IDENTICAL" if outputs(work) == base else "differs")
            finally:
                f.write_text(text)
                run(TRANSLATOR[tr])          # restore the generated files of this translator
            table.setdefault(tr, {}).setdefault(verdict, []).append(ident)
            if verdict == "IDENTICAL":
                print(f"HOLE {tr} {ident}: {what}")
        holes = 0
        for tr, v in table.items():
            print(tr, {k: len(x) for k, x in sorted(v.items())}, "IDENTICAL:", v.get("IDENTICAL", []))
            holes += len(v.get("IDENTICAL", []))
        print("holes:", holes)
        return 1 if holes else 0
    finally:
        shutil.rmtree(work, ignore_errors=True)


if __name__ == "__main__":
    sys.exit(main())
