#!/venv/bin/python
"""Builds the S-machine witness histories of fixed findings (F2, F4, F5, F6) into corpus/Cxx/*.json.
Run on the current tree; every script must be executable step by step and must not trip a monitor on HEAD."""
import sys, json
sys.path[:0] = ['/repo/src', '/verif/harness']
import smachine as S, scommon

SCRIPTS = {
 ("C03", "f5_spawn_into_idle_cancelled_scope"): ("F5: task spawned into a cancelled group whose delivery loop is idle (host in shielded cleanup)", [
    (S.NEWROOT,), (S.GNEW, 1), (S.GENTER, 1, 1), (S.CANCEL, 1, 1), (S.NEWSCOPE, 1, -1, 1), (S.ENTER, 1, 2),
    (S.RUNDELIVER, 1), (S.SPAWN, 1, 1), (S.RUNSTEP, 2), (S.SLEEP, 2, 5), (S.RUNDELIVER, 1), (S.RUNWAKE, 2)]),
 ("C01", "f4_spawn_during_empty_exit_checkpoint"): ("F4: another task spawns into a group during the checkpoint of its empty __aexit__", [
    (S.NEWROOT,), (S.GNEW, 1), (S.GENTER, 1, 1), (S.GEXIT, 1, 1), (S.NEWROOT,), (S.SPAWN, 2, 1), (S.RUNSTEP, 1),
    (S.RUNSTEP, 3), (S.FINISH, 3, 4), (S.RUNTASKDONE, 3), (S.RUNWAKE, 1)]),
 ("C01", "f4_native_cancel_during_empty_exit_checkpoint"): ("F4 (native): host natively cancelled during the empty-group checkpoint while another task spawns into the group", [
    (S.NEWROOT,), (S.GNEW, 1), (S.GENTER, 1, 1), (S.GEXIT, 1, 1), (S.NEWROOT,), (S.SPAWN, 2, 1), (S.NATIVECANCEL, 1),
    (S.RUNSTEP, 1), (S.RUNSTEP, 3), (S.RUNDELIVER, 1), (S.RUNWAKE, 3), (S.FINISH, 3, 0), (S.RUNTASKDONE, 3), (S.RUNWAKE, 1)]),
 ("C02", "f2_started_child_error_after_starter_cancelled"): ("F2: starter of start() cancelled, child raises ValueError while unwinding", [
    (S.NEWROOT,), (S.GNEW, 1), (S.GENTER, 1, 1), (S.NEWSCOPE, 1, -1, 0), (S.ENTER, 1, 2), (S.START, 1, 1), (S.RUNSTEP, 2),
    (S.SLEEP, 2, -1), (S.EXTCANCEL, 2), (S.RUNWAKE, 1), (S.RUNDELIVER, 3), (S.RUNWAKE, 2), (S.HOLD, 2, 7), (S.FINISH, 2, 0),
    (S.RUNTASKDONE, 2), (S.RUNWAKE, 1), (S.EXIT, 1, 2, 0), (S.GEXIT, 1, 1), (S.RUNSTEP, 1)]),
 ("C05", "f6_handle_scope_handover_to_foreign_host"): ("F6: child's handle scope hands pending uncancellations to the group scope hosted by another task; native request of the host erased", [
    (S.NEWROOT,), (S.GNEW, 1), (S.GENTER, 1, 1), (S.SPAWN, 1, 1), (S.RUNSTEP, 2), (S.SLEEP, 2, -1), (S.HCANCEL, 1, 2),
    (S.CANCEL, 1, 1), (S.NATIVECANCEL, 1), (S.RUNWAKE, 1), (S.RUNWAKE, 2), (S.FINISH, 2, 0), (S.RUNTASKDONE, 2), (S.DROP, 1),
    (S.GEXIT, 1, 1), (S.RUNSTEP, 1)]),
}
SCRIPTS[("C02", "failure_in_shielded_group_sibling_in_nested_shield")] = ("a child fails in a group whose own scope is shielded while the sibling sits in a nested shield; the sibling must be cancelled once it leaves the nested shield", [
    (S.NEWROOT,), (S.GNEW, 1), (S.GENTER, 1, 1), (S.SETSHIELD, 1, 1, 1), (S.SPAWN, 1, 1), (S.SPAWN, 1, 1), (S.RUNSTEP, 2), (S.RUNSTEP, 3),
    (S.NEWSCOPE, 3, -1, 1), (S.ENTER, 3, 4), (S.SLEEP, 3, -1), (S.HOLD, 2, 7), (S.FINISH, 2, 0), (S.RUNTASKDONE, 2),
    (S.RUNDELIVER, 1), (S.RUNWAKE, 1), (S.EXTCANCEL, 4), (S.RUNWAKE, 3), (S.EXIT, 3, 4, 0), (S.SLEEP, 3, 3), (S.RUNDELIVER, 1), (S.RUNWAKE, 3)])
SCRIPTS[("C03", "failure_in_shielded_group_sibling_in_nested_shield")] = SCRIPTS[("C02", "failure_in_shielded_group_sibling_in_nested_shield")]
SCRIPTS[("C02", "failure_in_group_behind_shield_inside_cancelled_scope")] = ("a task group opened inside a shield inside an already cancelled scope: a failing child must still cancel its group", [
    (S.NEWROOT,), (S.NEWSCOPE, 1, -1, 0), (S.ENTER, 1, 1), (S.NEWSCOPE, 1, -1, 1), (S.ENTER, 1, 2), (S.CANCEL, 1, 1),
    (S.GNEW, 1), (S.GENTER, 1, 1), (S.SPAWN, 1, 1), (S.SPAWN, 1, 1), (S.RUNSTEP, 2), (S.RUNSTEP, 3), (S.SLEEP, 3, -1),
    (S.HOLD, 2, 7), (S.FINISH, 2, 0), (S.RUNTASKDONE, 2), (S.RUNDELIVER, 3), (S.RUNWAKE, 3)])
SCRIPTS[("C04", "failure_in_group_behind_shield_inside_cancelled_scope")] = SCRIPTS[("C02", "failure_in_group_behind_shield_inside_cancelled_scope")]
SCRIPTS[("C01", "spawn_between_last_task_done_and_host_wakeup")] = ("the last child's done-callback has woken the host, but before the host runs another task spawns into the still active group: the host must go on waiting", [
    (S.NEWROOT,), (S.GNEW, 1), (S.GENTER, 1, 1), (S.SPAWN, 1, 1), (S.RUNSTEP, 2), (S.NEWROOT,), (S.GEXIT, 1, 1), (S.FINISH, 2, 3),
    (S.RUNTASKDONE, 2), (S.SPAWN, 3, 1), (S.RUNWAKE, 1), (S.RUNSTEP, 4), (S.YIELD, 4), (S.RUNSTEP, 4), (S.FINISH, 4, 5), (S.RUNTASKDONE, 4),
    (S.RUNWAKE, 1)])
SCRIPTS[("C01", "start_between_last_task_done_and_host_wakeup")] = ("same window, the late task is started with start()", [
    (S.NEWROOT,), (S.GNEW, 1), (S.GENTER, 1, 1), (S.SPAWN, 1, 1), (S.RUNSTEP, 2), (S.NEWROOT,), (S.GEXIT, 1, 1), (S.HOLD, 2, 4), (S.FINISH, 2, 0),
    (S.RUNTASKDONE, 2), (S.START, 3, 1), (S.RUNWAKE, 1), (S.RUNSTEP, 4), (S.RUNDELIVER, 1), (S.RUNWAKE, 4), (S.FINISH, 4, 0), (S.RUNTASKDONE, 4),
    (S.RUNWAKE, 3), (S.RUNWAKE, 1)])
SCRIPTS[("C05", "debt_relayed_through_uncancelled_middle_scope")] = ("outer > middle > inner on one task: inner is cancelled and delivered, then outer is cancelled before the task leaves inner; the uncancellation debt must be relayed through the never-cancelled middle scope", [
    (S.NEWROOT,), (S.NEWSCOPE, 1, -1, 0), (S.ENTER, 1, 1), (S.NEWSCOPE, 1, -1, 0), (S.ENTER, 1, 2), (S.NEWSCOPE, 1, -1, 0), (S.ENTER, 1, 3),
    (S.SLEEP, 1, -1), (S.EXTCANCEL, 3), (S.EXTCANCEL, 1), (S.RUNWAKE, 1), (S.EXIT, 1, 3, 0), (S.EXIT, 1, 2, 0), (S.EXIT, 1, 1, 0)])
SCRIPTS[("C02", "f4_late_child_fails_after_empty_exit_checkpoint")] = ("a child started during the empty-group exit checkpoint fails: its error must surface from the block", [
    (S.NEWROOT,), (S.GNEW, 1), (S.GENTER, 1, 1), (S.GEXIT, 1, 1), (S.NEWROOT,), (S.SPAWN, 2, 1), (S.RUNSTEP, 1),
    (S.RUNSTEP, 3), (S.HOLD, 3, 6), (S.FINISH, 3, 0), (S.RUNTASKDONE, 3), (S.RUNWAKE, 1)])
SCRIPTS[("C04", "native_cancel_in_empty_exit_checkpoint_replaces_anyio_cancellation")] = ("the body leaves an empty, cancelled group with the AnyIO cancellation in flight and the host is natively cancelled during the exit checkpoint: the native cancellation must come out", [
    (S.NEWROOT,), (S.NEWSCOPE, 1, -1, 0), (S.ENTER, 1, 1), (S.GNEW, 1), (S.GENTER, 1, 1), (S.CANCEL, 1, 2), (S.SLEEP, 1, -1), (S.RUNDELIVER, 2),
    (S.RUNWAKE, 1), (S.GEXIT, 1, 1), (S.NATIVECANCEL, 1), (S.RUNSTEP, 1), (S.EXIT, 1, 1, 0)])
SCRIPTS[("C04", "shielded_fail_after_inside_cancelled_scope")] = ("a block opened with fail_after(shield=True) inside a cancelled scope is not interrupted", [
    (S.NEWROOT,), (S.NEWSCOPE, 1, -1, 0), (S.ENTER, 1, 1), (S.FAILAT, 1, 9, 1), (S.CANCEL, 1, 1), (S.SLEEP, 1, 2), (S.TICK, 2),
    (S.RUNSLEEPDONE, 1), (S.RUNWAKE, 1), (S.EXIT, 1, 2, 1), (S.YIELD, 1), (S.RUNDELIVER, 1), (S.RUNSTEP, 1)])
SCRIPTS[("C08", "f46_shield_raised_while_ckif_spins")] = ("F46 regression: the outer scope is cancelled while the task is about to resume; the task calls checkpoint_if_cancelled and suspends; another task raises the shield of its current scope; the delivery runs and reaches nobody; the re-check must return normally instead of spinning on sleep(0)", [
    (S.NEWROOT,), (S.NEWSCOPE, 1, -1, 0), (S.ENTER, 1, 1), (S.NEWSCOPE, 1, -1, 0), (S.ENTER, 1, 2), (S.SLEEP, 1, 3), (S.NEWROOT,), (S.TICK, 3),
    (S.RUNSLEEPDONE, 1), (S.CANCEL, 2, 1), (S.RUNWAKE, 1), (S.CKIF, 1), (S.SETSHIELD, 2, 2, 1), (S.RUNDELIVER, 1), (S.RUNSTEP, 1),
    (S.EXIT, 1, 2, 0), (S.YIELD, 1), (S.RUNDELIVER, 1), (S.RUNSTEP, 1), (S.EXIT, 1, 1, 1)])
SCRIPTS[("C03", "f46_shield_raised_while_ckif_spins")] = SCRIPTS[("C08", "f46_shield_raised_while_ckif_spins")]
SCRIPTS[("C05", "f19_native_cancel_after_anyio_delivery_same_cycle")] = ("known finding F19: the scope's delivery has cancelled the task's wait, a native Task.cancel() arrives before the task runs: only the scope's own CancelledError surfaces and is absorbed", [
    (S.NEWROOT,), (S.NEWSCOPE, 1, -1, 0), (S.ENTER, 1, 1), (S.SLEEP, 1, -1), (S.EXTCANCEL, 1), (S.RUNDELIVER, 1), (S.NATIVECANCEL, 1),
    (S.RUNWAKE, 1), (S.EXIT, 1, 1, 0), (S.YIELD, 1), (S.RUNSTEP, 1)])
SCRIPTS[("C04", "f25_shield_raised_after_request")] = ("known finding F25: the outer scope's cancellation request is placed on the sleeping task, then another task raises the shield of the task's current scope before the task runs", [
    (S.NEWROOT,), (S.NEWSCOPE, 1, -1, 0), (S.ENTER, 1, 1), (S.NEWSCOPE, 1, -1, 0), (S.ENTER, 1, 2), (S.SLEEP, 1, -1), (S.EXTCANCEL, 1),
    (S.NEWROOT,), (S.SETSHIELD, 2, 2, 1), (S.RUNWAKE, 1)])
SCRIPTS[("C01", "f24_child_natively_cancelled_before_first_step")] = ("known finding F24: child natively cancelled before its first step: its handle is never final", [
    (S.NEWROOT,), (S.GNEW, 1), (S.GENTER, 1, 1), (S.SPAWN, 1, 1), (S.NATIVECANCEL, 2), (S.RUNSTEP, 2), (S.RUNTASKDONE, 2), (S.RUNWAKE, 1),
    (S.GEXIT, 1, 1), (S.RUNSTEP, 1)])
SCRIPTS[("C07", "started_twice_after_caller_cancelled")] = ("the caller of start() is cancelled before the child's first started(); the child, in a shielded section, calls started() twice: both calls are no-ops", [
    (S.NEWROOT,), (S.GNEW, 1), (S.GENTER, 1, 1), (S.NEWSCOPE, 1, -1, 0), (S.ENTER, 1, 2), (S.START, 1, 1), (S.RUNSTEP, 2),
    (S.NEWSCOPE, 2, -1, 1), (S.ENTER, 2, 4), (S.EXTCANCEL, 2), (S.RUNWAKE, 1), (S.STARTED, 2, 5), (S.STARTED, 2, 6), (S.EXIT, 2, 4, 0)])
SCRIPTS[("C02", "start_in_cancelled_scope_child_fails_after_future_cancelled")] = ("start() inside an already cancelled scope: the delivery cancels the start future first, then the child fails in its first segment - its error goes to the group exactly once and start() re-raises the cancellation", [
    (S.NEWROOT,), (S.GNEW, 1), (S.GENTER, 1, 1), (S.NEWSCOPE, 1, -1, 0), (S.ENTER, 1, 2), (S.CANCEL, 1, 2), (S.START, 1, 1), (S.RUNDELIVER, 2),
    (S.RUNSTEP, 2), (S.HOLD, 2, 7), (S.FINISH, 2, 0), (S.RUNTASKDONE, 2), (S.RUNWAKE, 1), (S.EXIT, 1, 2, 0), (S.GEXIT, 1, 1), (S.RUNSTEP, 1)])
SCRIPTS[("C07", "start_in_cancelled_scope_child_fails_after_future_cancelled")] = SCRIPTS[("C02", "start_in_cancelled_scope_child_fails_after_future_cancelled")]
SCRIPTS[("C05", "native_cancel_after_own_scope_cancel_in_join")] = ("the host waits in __aexit__ for a child in shielded clean-up; it has already caught the group's own cancellation when a native Task.cancel() arrives: the native cancellation must come out of the block", [
    (S.NEWROOT,), (S.GNEW, 1), (S.GENTER, 1, 1), (S.SPAWN, 1, 1), (S.RUNSTEP, 2), (S.NEWSCOPE, 2, -1, 1), (S.ENTER, 2, 3), (S.SLEEP, 2, -1),
    (S.CANCEL, 1, 1), (S.GEXIT, 1, 1), (S.RUNDELIVER, 1), (S.RUNWAKE, 1), (S.NATIVECANCEL, 1), (S.RUNWAKE, 1), (S.EXTCANCEL, 3), (S.RUNWAKE, 2),
    (S.EXIT, 2, 3, 0), (S.FINISH, 2, 0), (S.RUNTASKDONE, 2), (S.RUNWAKE, 1)])
SCRIPTS[("C04", "native_cancel_after_own_scope_cancel_in_join")] = SCRIPTS[("C05", "native_cancel_after_own_scope_cancel_in_join")]
SCRIPTS[("C07", "f2_started_child_error_after_starter_cancelled")] = SCRIPTS[("C02", "f2_started_child_error_after_starter_cancelled")]
SCRIPTS[("C07", "f20_pre_started_error_with_native_cancel_of_starter")] = ("F20: the child fails before started(), its task_done callback hands the error to the start future, the starter is natively cancelled before it runs again: start() must raise the child's error [2007], not the cancellation", [
    (S.NEWROOT,), (S.GNEW, 1), (S.GENTER, 1, 1), (S.START, 1, 1), (S.RUNSTEP, 2), (S.HOLD, 2, 7), (S.FINISH, 2, 0),
    (S.RUNTASKDONE, 2), (S.NATIVECANCEL, 1), (S.RUNWAKE, 1)])
SCRIPTS[("C02", "f20_pre_started_error_with_native_cancel_of_starter")] = SCRIPTS[("C07", "f20_pre_started_error_with_native_cancel_of_starter")]
SCRIPTS[("C02", "f23_child_fails_under_parent_cancel_then_group_shielded")] = ("F23: the scope around a task group is cancelled, child B fails and its task_done callback runs, then the host shields the group's scope: the group's OWN scope must have been cancelled by the failure, and child A (asleep inside a shield) must be cancelled once it leaves its shield", [
    (S.NEWROOT,), (S.NEWSCOPE, 1, -1, 0), (S.ENTER, 1, 1), (S.GNEW, 1), (S.GENTER, 1, 1), (S.SPAWN, 1, 1), (S.SPAWN, 1, 1),
    (S.RUNSTEP, 2), (S.NEWSCOPE, 2, -1, 1), (S.ENTER, 2, 5), (S.SLEEP, 2, -1), (S.RUNSTEP, 3), (S.CANCEL, 1, 1),
    (S.RUNWAKE, 3), (S.HOLD, 3, 7), (S.FINISH, 3, 0), (S.RUNTASKDONE, 3), (S.RUNWAKE, 1), (S.SETSHIELD, 1, 2, 1),
    (S.EXTCANCEL, 5), (S.RUNWAKE, 2), (S.EXIT, 2, 5, 0), (S.YIELD, 2), (S.RUNDELIVER, 2), (S.RUNSTEP, 2)])

def main():
    for (pid, name), (what, script) in SCRIPTS.items():
        w = S.SWorld()
        with w:
            for op in script:
                w.do(*op)
        h = scommon.analyse(w.ops, w.outs)
        bad = {p: [m for m in ms if not scommon.known_tag(p, m)] for p, ms in h.viol.items()}
        assert not any(bad.values()), (name, bad)
        json.dump({"what": what, "ops": w.ops}, open(f'/verif/corpus/{pid}/{name}.json', 'w'))
        print(pid, name, 'ok', len(script), sorted(h.flags)[:6])

main()
