#!/usr/bin/env python3
"""Tie T for C08: regenerates coq/prims/FastPathGen.v from /repo's source.

For every row of the fast-path table the translator locates the function (and, where the function has a slow
path, the branch taken when the operation can complete without waiting), linearises it into the atoms of
coq/prims/FastPath.v

    CkIf     `await <...>checkpoint_if_cancelled()`
    Ck       `await <...>checkpoint()`  /  `await sleep(0)` style delegations are resolved through DELEGATE rows
    ShieldY  `await <...>cancel_shielded_checkpoint()`
    Effect   one or more consecutive state-changing statements (assignment, augmented assignment, plain call)

and emits `row_shape_gen`.  FastPathGenEq.v then proves `row_shape_gen r = row_shape r` for every translated row, so
a reordered check/effect/yield in the source breaks a proof obligation (or the translator refuses).

FAIL-CLOSED.  Accepted statement grammar inside a fast path:
  * `await X.checkpoint_if_cancelled()` | `await X.checkpoint()` | `await X.cancel_shielded_checkpoint()`
    (X any attribute chain or a bare name imported from the lowlevel module)
  * `await self.<attr>.<method>(...)` / `return await self.<method>(...)` where DELEGATE names the target row
  * `<target> = <expr>` / `<target> op= <expr>` / `<call>(...)` / `del ...`        -> Effect (merged when adjacent)
  * `try: BODY except ...: HANDLER` -> BODY (handlers are the interrupted path, not the fast path);
    `try: BODY finally: F` -> BODY
  * `if not self._fast_acquire: BODY` -> BODY (the non-fast configuration is the one in the table)
  * `with self.<guard>: BODY` -> BODY
  * `task = cast(...)` style pure local bindings of `current_task()` are skipped (no state change)
  * `return` / `return <name>` ends the path
Anything else => exit status 2 with the offending construct.
"""
from __future__ import annotations

import ast
import os
import sys
from pathlib import Path

REPO = Path(os.environ.get("VERIF_REPO", "/repo"))
OUT = Path("/verif/coq/prims/FastPathGen.v")

CK = {"checkpoint_if_cancelled": "CkIf", "checkpoint": "Ck", "cancel_shielded_checkpoint": "ShieldY"}


class Refuse(Exception):
    pass


def find_func(tree, cls, name):
    for node in ast.walk(tree):
        if isinstance(node, ast.ClassDef) and node.name == cls:
            for f in node.body:
                if isinstance(f, (ast.AsyncFunctionDef, ast.FunctionDef)) and f.name == name:
                    return f
    if cls is None:
        found = [f for f in tree.body if isinstance(f, (ast.AsyncFunctionDef, ast.FunctionDef)) and f.name == name]
        if found:
            return found[-1]            # the implementation follows its @overload stubs
    raise Refuse(f"function {cls}.{name} not found")


def call_name(node):
    if isinstance(node, ast.Call):
        f = node.func
        if isinstance(f, ast.Attribute):
            return f.attr
        if isinstance(f, ast.Name):
            return f.id
    return None


def is_pure_local(stmt):
    """`task = cast(asyncio.Task, current_task())`, `loop = get_running_loop()`, docstrings."""
    if isinstance(stmt, ast.Expr) and isinstance(stmt.value, ast.Constant):
        return True
    if isinstance(stmt, ast.Assign) and len(stmt.targets) == 1 and isinstance(stmt.targets[0], ast.Name):
        src = ast.unparse(stmt.value)
        return "current_task()" in src or src in ("get_running_loop()", "asyncio.get_running_loop()") \
            or src.startswith("asyncio.Future") or src == "False" or src == "True"
    if isinstance(stmt, ast.AnnAssign) and isinstance(stmt.target, ast.Name):
        return True
    return False


def linearise(stmts, where, delegates):
    atoms = []

    def effect():
        if not atoms or atoms[-1] != "Effect":
            atoms.append("Effect")

    for st in stmts:
        if is_pure_local(st):
            continue
        if isinstance(st, ast.Return):
            if st.value is None or isinstance(st.value, (ast.Name, ast.Constant)):
                return atoms, True
            if isinstance(st.value, ast.Await):
                nm = call_name(st.value.value)
                if nm in CK:
                    atoms.append(CK[nm]); return atoms, True
                if nm in delegates:
                    atoms.append(("delegate", delegates[nm])); return atoms, True
            if isinstance(st.value, ast.Call):
                effect(); return atoms, True
            raise Refuse(f"{where}: unsupported return `{ast.unparse(st)}`")
        if isinstance(st, ast.Expr) and isinstance(st.value, ast.Await):
            nm = call_name(st.value.value)
            if nm in CK:
                atoms.append(CK[nm]); continue
            if nm in delegates:
                atoms.append(("delegate", delegates[nm])); continue
            raise Refuse(f"{where}: unsupported await `{ast.unparse(st)}`")
        if isinstance(st, (ast.Assign, ast.AugAssign, ast.Delete)) or (isinstance(st, ast.Expr) and isinstance(st.value, ast.Call)):
            if isinstance(st, ast.Assign) and isinstance(st.value, ast.Await):
                raise Refuse(f"{where}: unsupported awaited assignment `{ast.unparse(st)}`")
            effect(); continue
        if isinstance(st, ast.Try):
            sub, done = linearise(st.body, where, delegates)
            atoms.extend(sub)
            if done:
                return atoms, True
            if st.orelse:
                sub, done = linearise(st.orelse, where, delegates)
                atoms.extend(sub)
                if done:
                    return atoms, True
            continue
        if isinstance(st, ast.If):
            test = ast.unparse(st.test)
            if test == "not self._fast_acquire":
                sub, done = linearise(st.body, where, delegates)
                atoms.extend(sub)
                if done:
                    return atoms, True
                continue
            raise Refuse(f"{where}: unsupported branch `if {test}` inside a fast path")
        if isinstance(st, ast.With):
            sub, done = linearise(st.body, where, delegates)
            atoms.extend(sub)
            if done:
                return atoms, True
            continue
        raise Refuse(f"{where}: unsupported statement `{ast.unparse(st)[:80]}`")
    return atoms, False


def branch(func, selector, where):
    """Select the statements of the fast path."""
    body = func.body
    if selector in ("whole", "reduce"):
        return body
    if selector.startswith("if:"):
        want = selector[3:]
        for k, st in enumerate(body):
            if isinstance(st, ast.If) and ast.unparse(st.test) == want:
                # whatever the function does before it tests for the fast path belongs to the fast path too
                # (since F53 Lock/Semaphore.acquire check for cancellation first); same grammar, fail-closed
                return body[:k] + st.body
        raise Refuse(f"{where}: branch `if {want}` not found")
    if selector.startswith("prefix:"):
        # statements up to (excluding) the first one whose source starts with the marker
        marker = selector[7:]
        out = []
        for st in body:
            if ast.unparse(st).startswith(marker):
                return out
            out.append(st)
        raise Refuse(f"{where}: marker `{marker}` not found")
    if selector.startswith("tail-if:"):
        want = selector[8:]
        for st in reversed(body):
            if isinstance(st, ast.If) and ast.unparse(st.test) == want:
                return st.body
        raise Refuse(f"{where}: trailing `if {want}` not found")
    raise Refuse(f"bad selector {selector}")


# row -> (file, class, function, selector, delegates{method -> row})
A = "src/anyio/_backends/_asyncio.py"
SY = "src/anyio/_core/_synchronization.py"
MEM = "src/anyio/streams/memory.py"
ROWS = {
    3: (A, "AsyncIOBackend", "checkpoint", "whole", {"sleep": "SLEEP0"}),
    4: (A, "Event", "wait", "if:self.is_set()", {}),
    5: (A, "Lock", "acquire", "if:self._owner_task is None and (not self._waiters)", {}),
    6: (A, "Semaphore", "acquire", "if:self._value > 0 and (not self._waiters)", {}),
    7: (A, "CapacityLimiter", "acquire_on_behalf_of", "whole", {}),
    9: (SY, "Condition", "wait", "prefix:self._check_acquired()", {}),
    10: (MEM, "MemoryObjectSendStream", "send", "whole", {}),
    12: (MEM, "MemoryObjectReceiveStream", "receive", "whole", {}),
    14: (A, "AsyncIOBackend", "run_sync_in_worker_thread", "prefix:try:", {}),
    18: ("src/anyio/functools.py", None, "reduce", "reduce", {}),
}
# rows that are pure delegations to another row (checked syntactically)
DELEGATIONS = {
    8: (SY, "Condition", "acquire", "acquire", 5),           # await self._lock.acquire(); then records the owner
    15: ("src/anyio/_core/_tasks.py", "TaskHandle", "wait", "wait", 4),
    17: ("src/anyio/_core/_futures.py", "Future", "wait", "wait", 4),
}


def special_cases(row, atoms):
    # CapacityLimiter.acquire_on_behalf_of: `try: nowait() except WouldBlock: ... else: shielded checkpoint`
    # memory send/receive: `try: self.*_nowait(...) except WouldBlock: <slow path>`
    return atoms


def translate():
    shapes = {}
    cache = {}

    def tree_of(rel):
        if rel not in cache:
            cache[rel] = ast.parse((REPO / rel).read_text())
            # decorators / rebinding / setattr on the classes whose methods are read below (tools/guard.py)
            key = rel.split("anyio/", 1)[1]
            import guard
            want = {c for (r, c, *_rest) in list(ROWS.values()) + list(DELEGATIONS.values()) if r == rel and c}
            if key in guard.TABLE:
                have = [c for c in sorted(want) if c in guard.TABLE[key]["classes"]]
                try:
                    guard.check(key, cache[rel], have)
                except guard.GuardError as e:
                    raise Refuse(str(e))
        return cache[rel]

    for row, (rel, cls, fn, sel, deleg) in sorted(ROWS.items()):
        where = f"row {row} {cls}.{fn}"
        func = find_func(tree_of(rel), cls, fn)
        stmts = branch(func, sel, where)
        if row == 18:
            # reduce(): `await checkpoint_if_cancelled()`; one if/elif/else chain that consumes the iterable and
            # awaits the callback (no checkpoint call of its own inside); `await cancel_shielded_checkpoint()`;
            # `return value`
            body = [s for s in func.body if not is_pure_local(s)]
            ok = (len(body) == 4
                  and isinstance(body[0], ast.Expr) and isinstance(body[0].value, ast.Await)
                  and call_name(body[0].value.value) == "checkpoint_if_cancelled"
                  and isinstance(body[1], ast.If)
                  and isinstance(body[2], ast.Expr) and isinstance(body[2].value, ast.Await)
                  and call_name(body[2].value.value) == "cancel_shielded_checkpoint"
                  and isinstance(body[3], ast.Return) and isinstance(body[3].value, ast.Name))
            if not ok:
                raise Refuse(f"{where}: expected `await checkpoint_if_cancelled(); if …: <consume> …; "
                             f"await cancel_shielded_checkpoint(); return value`, got "
                             f"{[ast.unparse(s)[:50] for s in body]}")
            inner = [call_name(n) for n in ast.walk(body[1]) if isinstance(n, ast.Call)]
            if any(n in CK for n in inner):
                raise Refuse(f"{where}: a checkpoint call inside the consuming branch")
            if not any(isinstance(n, ast.Await) for n in ast.walk(body[1])):
                raise Refuse(f"{where}: the consuming branch never awaits the callback")
            shapes[row] = ["CkIf", "Effect", "ShieldY"]
            continue
        if row == 3:
            # checkpoint(): `await sleep(0)` is the bare yield itself
            if len(stmts) != 1 or ast.unparse(stmts[0]) != "await sleep(0)":
                raise Refuse(f"{where}: expected `await sleep(0)`, got `{ast.unparse(stmts[0])}`")
            shapes[row] = ["Ck"]
            continue
        atoms, _ = linearise(stmts, where, deleg)
        shapes[row] = atoms
    for row, (rel, cls, fn, meth, target) in sorted(DELEGATIONS.items()):
        where = f"row {row} {cls}.{fn}"
        func = find_func(tree_of(rel), cls, fn)
        body = [s for s in func.body if not is_pure_local(s)]
        if not body or not (isinstance(body[0], ast.Expr) and isinstance(body[0].value, ast.Await)
                            and call_name(body[0].value.value) == meth):
            raise Refuse(f"{where}: expected a leading `await ….{meth}()`")
        rest, _ = linearise(body[1:], where, {})
        base = list(shapes[target])
        if rest == ["Effect"] and "Effect" in base:
            rest = []                     # recording the owner merges with the acquisition effect
        if rest:
            raise Refuse(f"{where}: unexpected statements after the delegation: {rest}")
        shapes[row] = base
    return shapes


def emit(shapes):
    lines = ["(* GENERATED by tools/translate_fastpath.py from /repo's source on every run of bin/check C08. *)",
             "From AV Require Import Base FastPath.", "",
             "Definition row_shape_gen (row : nat) : option (list atom) :=", "  match row with"]
    for row, atoms in sorted(shapes.items()):
        lines.append(f"  | {row} => Some [{'; '.join(atoms)}]")
    lines += ["  | _ => None", "  end.", "",
              f"Definition translated_rows : list nat := [{'; '.join(str(r) for r in sorted(shapes))}].", ""]
    return "\n".join(lines) + "\n"


def main():
    try:
        shapes = translate()
        for row, atoms in shapes.items():
            for a in atoms:
                if not isinstance(a, str):
                    raise Refuse(f"row {row}: unresolved delegation {a}")
        text = emit(shapes)
    except Refuse as e:
        msg = str(e).replace('"', "'")
        OUT.write_text(f'(* translator refused *)\nFrom AV Require Import Base FastPath.\n'
                       f'Definition refused : False := "translate_fastpath REFUSED: {msg}".\n')
        print("translate_fastpath: REFUSED:", e)
        return 2
    old = OUT.read_text() if OUT.exists() else ""
    if old != text:
        OUT.write_text(text)
    print("translate_fastpath: ok", {r: a for r, a in sorted(shapes.items())})
    return 0


if __name__ == "__main__":
    sys.exit(main())
